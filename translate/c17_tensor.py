"""Fail-closed translator: the tensor helpers of femio/functions.py and the two
thermal-expansion converters of femio/signal_processor.py  ->  Gallina
(coq/C17/gen/TensorIdx.v), written in the per-batch-item NumPy vocabulary of
coq/C17/Model.v.

Every array is (n, k) or (n, 3, 3); the translated functions act on the rows
of the batch independently, so the model is the function on ONE batch item
(rank-1 `vec`, rank-2 `mat`, rank-0 scalar) and the batch is `map`.

Anything outside the grammar below raises TranslateError (= the tie is
broken; the check reports it, it never guesses).

Statements
  docstring | `if P is None: P = [ints]` | `x = e` | `a, b(, c) = e`
  | `x[:, k:] = e` | `x[:, :, k] = e` | `if flag: <in-place updates of one name>`
  | `return e` | `return (e, e, e)` | bare `return`
  | `self.elemental_data.update_data(self.elements.ids, {name: e, ...}, allow_overwrite=True)`
  | `self.<attr> = True|False`
Expressions
  names, numeric constants, + - * / (scalar broadcast or elementwise), `@`,
  subscripts  v[:, L] v[:, a:b] v[:, k] v[:, ::-1] m[:, :, k] m[:, i, j] m[:, :, ::-1],
  np.reshape(x, (-1, 3, 3)) np.reshape(m, (-1, 9)) np.concatenate([..], axis=1)
  np.zeros(x.shape) np.zeros((len(..), k)) np.stack([..], axis=1|2)
  np.transpose(m, (0, 2, 1)) np.matmul np.cross np.einsum (batch letter first)
  np.linalg.eigh  np.array([[s, ...]]).T  np.array([np.diag(x) for x in X])
  calls of the other translated functions,
  self.elemental_data.get_attribute_data('name')  (resolved through config.DICT_ALIASES)

A second, independent output is a conservative alias summary: which caller
owned arrays (parameters / mesh attributes) can be written in place.
"""
import ast
import hashlib
from fractions import Fraction
from pathlib import Path


class TranslateError(Exception):
    pass


KEYWORDS = {'in', 'let', 'fun', 'if', 'then', 'else', 'end', 'match', 'with', 'as', 'at',
            'return', 'forall', 'exists', 'Type', 'Prop', 'Set', 'using', 'where', 'for',
            'fix', 'cofix', 'mod', 'IF', 'from', 'O', 'T', 'eigh'}

# signature table: kinds of the parameters of each translated function
#   v = (n,k) array, m = (n,3,3) array, b = bool flag, oi = optional index list
SIGS = {
    'convert_array2symmetric_matrix': [('in_array', 'v'), ('from_engineering', 'b'), ('order', 'oi')],
    'convert_symmetric_matrix2array': [('in_matrix', 'm'), ('to_engineering', 'b'), ('order', 'oi')],
    'calculate_symmetric_matrices_from_eigens': [('eigenvalues', 'v'), ('eigenvectors', 'v')],
    'calculate_array_from_eigens': [('eigenvalues', 'v'), ('eigenvectors', 'v'), ('to_engineering', 'b')],
    'calculate_principal_components': [('in_array', 'v'), ('from_engineering', 'b'), ('order', 'oi')],
    'invert_strain': [('strain', 'v'), ('is_engineering', 'b')],
}
FUNCTIONS_ORDER = ['convert_array2symmetric_matrix', 'convert_symmetric_matrix2array',
                   'calculate_symmetric_matrices_from_eigens', 'calculate_array_from_eigens',
                   'calculate_principal_components', 'invert_strain']
METHODS = ['convert_lte_global2local', 'convert_lte_local2global']
COQ_KIND = {'v': 'vec T', 'm': 'mat T', 'b': 'bool', 'oi': 'option (list nat)', 's': 'T',
            'i': 'list nat'}


def cname(n):
    return n + '_' if n in KEYWORDS else n


def nat_list(xs):
    return '[' + '; '.join(str(int(x)) for x in xs) + ']'


class Val:
    """translated expression: Coq text, kind, origin (alias summary)"""

    def __init__(self, text, kind, origin='fresh', tup=None, buf=None):
        self.text, self.kind, self.origin, self.tup = text, kind, origin, tup
        self.buf = buf          # identity of the underlying buffer (views share it)
        self.stale = False      # a view of it was written in place after this binding


class FnInfo:
    def __init__(self):
        self.params = []          # [(name, kind, default_text)]
        self.ret_kind = None      # kind or ('tuple', [kinds])
        self.ret_origin = 'fresh'  # 'fresh' | ('param', name)
        self.mutates = set()      # parameter names written in place
        self.needs_eigh = False
        self.inputs = []          # methods: canonical attribute names read
        self.outputs = []         # methods: canonical attribute names written
        self.read_order = {}      # methods: attribute -> ('own',) | ('ids_of', attr)
        self.write_binding = []   # methods: per update_data call: ('positional',) | ('ids_of', attr)
        self.text = ''


class Translator:
    def __init__(self, aliases):
        self.fn = {}
        self.aliases = aliases
        self.mutated_caller = []   # (function, array) pairs
        self.nbuf = 0
        self.integer_guards = []   # function:array pairs cast to float before the shear halving
        self.index_lists = {}      # name -> list, for the evidence / side lemmas
        self.consts = {}           # module-level constants (evaluated, not pattern-matched)
        self.module_funcs = {}     # module-level private helpers (inlined at the call site)
        self.class_funcs = {}      # private methods of the mixin (inlined at the call site)
        self.local_funcs = {}      # closures defined inside the function being translated
        self.prefix = ''           # name prefix of the locals of a helper being inlined
        self.depth = 0
        self.ninline = 0
        self.cur_lines = None
        self.cur_outputs = None
        self.widenings = []        # spellings accepted beyond the literal grammar (evidence)
        self.inplace_log = []      # (name, buffer) of every in-place write translated so far

    # ------------------------------------------------------------ helpers
    def err(self, node, msg):
        raise TranslateError(f'{self.cur}: line {getattr(node, "lineno", "?")}: {msg}: '
                             f'{ast.dump(node)[:200]}')

    def const_num(self, node):
        """numeric literal (possibly negated) -> Fraction, else None"""
        if isinstance(node, ast.Constant) and isinstance(node.value, (int, float)) \
                and not isinstance(node.value, bool):
            return Fraction(*float(node.value).as_integer_ratio()) \
                if isinstance(node.value, float) else Fraction(node.value)
        if isinstance(node, ast.UnaryOp) and isinstance(node.op, ast.USub):
            c = self.const_num(node.operand)
            return None if c is None else -c
        return None

    def scal_text(self, fr):
        if fr.denominator == 1:
            return f'(of_Z O ({fr.numerator})%Z)'
        return f'(div O (of_Z O ({fr.numerator})%Z) (of_Z O ({fr.denominator})%Z))'

    def int_of(self, node):
        c = self.const_num(node)
        if c is None or c.denominator != 1 or c < 0:
            self.err(node, 'non-negative integer literal expected')
        return int(c)

    def int_list(self, node):
        """index list: a list/tuple display of ints, or a constant expression that
        evaluates to one (module-level table, list(TABLE), np.array(TABLE))"""
        if isinstance(node, ast.Constant):
            return None
        v = self.cval(node)
        if not isinstance(v, (list, tuple)) or not all(type(x) is int and x >= 0 for x in v):
            return None
        if not isinstance(node, (ast.List, ast.Tuple)):
            self.widen('index list taken from a constant expression')
        return [int(x) for x in v]


    NOCONST = object()

    def cval(self, node, loc=None):
        """value of a constant expression (literals, module-level constants,
        tuple/list/range/slice/list()/tuple() of those), else NOCONST"""
        N = self.NOCONST
        loc = loc or {}
        if isinstance(node, ast.Constant) and (node.value is None or isinstance(node.value, (int, float))):
            return node.value
        if isinstance(node, ast.UnaryOp) and isinstance(node.op, ast.USub):
            v = self.cval(node.operand, loc)
            return N if v is N or not isinstance(v, (int, float)) or isinstance(v, bool) else -v
        if isinstance(node, ast.Name):
            if node.id in loc:
                return loc[node.id]
            if node.id in getattr(self, 'local_names', ()):
                return N
            return self.consts.get(node.id, N)
        if isinstance(node, (ast.Tuple, ast.List)):
            vs = [self.cval(e, loc) for e in node.elts]
            if any(v is N for v in vs):
                return N
            return tuple(vs) if isinstance(node, ast.Tuple) else list(vs)
        if isinstance(node, ast.Call) and isinstance(node.func, ast.Name) and not node.keywords:
            vs = [self.cval(a, loc) for a in node.args]
            if any(v is N for v in vs):
                return N
            f = node.func.id
            try:
                if f == 'slice' and 1 <= len(vs) <= 3 and all(v is None or type(v) is int for v in vs):
                    return slice(*vs)
                if f == 'range' and 1 <= len(vs) <= 3 and all(type(v) is int for v in vs):
                    r = range(*vs)
                    return N if len(r) > 64 else tuple(r)
                if f in ('list', 'tuple') and len(vs) == 1 and isinstance(vs[0], (list, tuple)):
                    return list(vs[0]) if f == 'list' else tuple(vs[0])
            except (TypeError, ValueError):
                return N
        if self.is_np(getattr(node, 'func', None), 'array') and isinstance(node, ast.Call) and \
                len(node.args) == 1 and not node.keywords:
            v = self.cval(node.args[0], loc)
            if isinstance(v, (list, tuple)) and all(type(x) is int for x in v):
                return list(v)
        return N

    def load_consts(self, tree):
        """module-level `NAME = <constant expression>` (assigned exactly once)"""
        count = {}
        for n in tree.body:
            if isinstance(n, ast.Assign):
                for t in n.targets:
                    for m in ast.walk(t):
                        if isinstance(m, ast.Name):
                            count[m.id] = count.get(m.id, 0) + 1
            elif isinstance(n, (ast.AugAssign, ast.AnnAssign)) and isinstance(n.target, ast.Name):
                count[n.target.id] = count.get(n.target.id, 0) + 2
        for n in ast.walk(tree):
            if isinstance(n, ast.Global):
                for g in n.names:
                    count[g] = count.get(g, 0) + 2
        self.consts = {}
        for n in tree.body:
            if isinstance(n, ast.Assign) and len(n.targets) == 1 and isinstance(n.targets[0], ast.Name) \
                    and count.get(n.targets[0].id) == 1:
                v = self.cval(n.value)
                if v is not self.NOCONST:
                    self.consts[n.targets[0].id] = v

    def const_to_ast(self, v, at):
        """a constant value as an AST node (slices only make sense in index position)"""
        if isinstance(v, slice):
            c = lambda x: None if x is None else ast.copy_location(ast.Constant(x), at)   # noqa
            return ast.copy_location(ast.Slice(lower=c(v.start), upper=c(v.stop), step=c(v.step)), at)
        if isinstance(v, (list, tuple)):
            return ast.copy_location(ast.List(elts=[self.const_to_ast(x, at) for x in v], ctx=ast.Load()), at)
        return ast.copy_location(ast.Constant(v), at)

    def elements(self, node, env):
        """the element expressions of a list display: [a, b] | (a, b) | [e(x) for x in CONST]
        (comprehension over a constant table / range unrolled)"""
        if isinstance(node, (ast.List, ast.Tuple)):
            return list(node.elts)
        if isinstance(node, (ast.ListComp, ast.GeneratorExp)) and len(node.generators) == 1:
            g = node.generators[0]
            if not g.ifs and not g.is_async and isinstance(g.target, ast.Name) and g.target.id not in env:
                seq = self.cval(g.iter)
                if isinstance(seq, (list, tuple)):
                    tr_ = self
                    name = g.target.id

                    class Sub(ast.NodeTransformer):
                        def __init__(self, v):
                            self.v = v

                        def visit_Name(self, n):
                            if n.id == name and isinstance(n.ctx, ast.Load):
                                return tr_.const_to_ast(self.v, n)
                            return n
                    import copy
                    self.widen('comprehension over a constant table unrolled')
                    return [Sub(v).visit(copy.deepcopy(node.elt)) for v in seq]
        return None

    def widen(self, what):
        w = f'{self.cur}: {what}'
        if w not in self.widenings:
            self.widenings.append(w)

    def norm_index(self, s):
        """index position: a module-level slice constant or slice(a, b) call -> ast.Slice"""
        if isinstance(s, (ast.Name, ast.Call)):
            v = self.cval(s)
            if isinstance(v, slice):
                self.widen('slice object as index')
                return self.const_to_ast(v, s)
        return s

    def is_np(self, node, *names):
        """node is np.<a>.<b> ..."""
        parts = []
        while isinstance(node, ast.Attribute):
            parts.append(node.attr)
            node = node.value
        if isinstance(node, ast.Name) and node.id == 'np':
            return tuple(reversed(parts)) == names
        return False

    def full_slice(self, s):
        return isinstance(s, ast.Slice) and s.lower is None and s.upper is None and s.step is None

    def rev_slice(self, s):
        return isinstance(s, ast.Slice) and s.lower is None and s.upper is None and \
            self.const_num(s.step) == -1 if isinstance(s, ast.Slice) and s.step is not None else False

    # -------------------------------------------------------- expressions
    def expr(self, node, env):
        c = self.const_num(node)
        if c is not None:
            return Val(self.scal_text(c), 's')
        if isinstance(node, ast.Name):
            if node.id not in env:
                lst = self.int_list(node)
                if lst is not None:
                    return Val(nat_list(lst), 'i')
                self.err(node, 'unknown name')
            if env[node.id].stale:
                self.err(node, 'name read after a view of its buffer was written in place')
            return env[node.id]
        if isinstance(node, ast.Tuple):
            vals = [self.expr(e, env) for e in node.elts]
            return Val('(' + ', '.join(v.text for v in vals) + ')', 'tuple', tup=vals)
        if isinstance(node, ast.BinOp):
            if isinstance(node.op, ast.MatMult):
                a, b = self.expr(node.left, env), self.expr(node.right, env)
                if a.kind != 'm' or b.kind != 'm':
                    self.err(node, '@ on non-matrices')
                return Val(f'(mmul O {a.text} {b.text})', 'm')
            ops = {ast.Add: 'add', ast.Sub: 'sub', ast.Mult: 'mul', ast.Div: 'div'}
            if type(node.op) not in ops:
                self.err(node, 'operator')
            op = ops[type(node.op)]
            a, b = self.expr(node.left, env), self.expr(node.right, env)
            return self.arith(node, op, a, b)
        # self.elemental_data['name'].filter_with_ids(ids).data : rows of 'name' in the order of ids
        if isinstance(node, ast.Attribute) and node.attr == 'data' and isinstance(node.value, ast.Call) \
                and isinstance(node.value.func, ast.Attribute) and node.value.func.attr == 'filter_with_ids' \
                and isinstance(node.value.func.value, ast.Subscript) and \
                ast.dump(node.value.func.value.value) == ast.dump(ast.parse('self.elemental_data').body[0].value) \
                and isinstance(node.value.func.value.slice, ast.Constant) and \
                isinstance(node.value.func.value.slice.value, str) and len(node.value.args) == 1 and \
                not node.value.keywords and isinstance(node.value.args[0], ast.Name):
            idv = env.get(node.value.args[0].id)
            if idv is None or idv.kind != 'ids':
                self.err(node, 'filter_with_ids argument is not an id list bound by get_attribute_ids')
            nm = self.aliases.get(node.value.func.value.slice.value, node.value.func.value.slice.value)
            if nm not in self.info.inputs:
                self.info.inputs.append(nm)
            order = idv.origin if idv.origin != ('ids_of', nm) else ('own',)
            self.info.read_order.setdefault(nm, order)
            if self.info.read_order[nm] != order:
                self.err(node, 'attribute read in two different row orders')
            return Val('in_' + nm, 'v', 'fresh')
        if isinstance(node, ast.Subscript):
            return self.subscript(node, env)
        if isinstance(node, ast.Call):
            return self.call(node, env)
        self.err(node, 'expression form not in the grammar')

    def arith(self, node, op, a, b):
        ka, kb = a.kind, b.kind
        if ka == 's' and kb == 's':
            return Val(f'({op} O {a.text} {b.text})', 's')
        if ka in 'vm' and kb == 's':
            f = 'vmap' if ka == 'v' else 'mmap'
            return Val(f'({f} (fun x_ => {op} O x_ {b.text}) {a.text})', ka)
        if ka == 's' and kb in 'vm':
            f = 'vmap' if kb == 'v' else 'mmap'
            return Val(f'({f} (fun x_ => {op} O {a.text} x_) {b.text})', kb)
        if ka == 'v' and kb == 'v':
            return Val(f'(map2 ({op} O) {a.text} {b.text})', 'v')
        self.err(node, f'arithmetic on kinds {ka},{kb}')

    def subscript(self, node, env):
        base = self.expr(node.value, env)
        sl = node.slice
        idx = list(sl.elts) if isinstance(sl, ast.Tuple) else [sl]
        if not idx or not self.full_slice(idx[0]):
            self.err(node, 'first (batch) index must be `:`')
        idx = [self.norm_index(x) for x in idx[1:]]
        if base.kind == 'v' and len(idx) == 1:
            s = idx[0]
            if isinstance(s, ast.Name) and s.id in env:
                if env[s.id].kind != 'i':
                    self.err(node, 'index name is not an index list')
                return Val(f'(gather O {base.text} {env[s.id].text})', 'v')
            lst = self.int_list(s)
            if lst is not None:
                return Val(f'(gather O {base.text} {nat_list(lst)})', 'v')
            if isinstance(s, ast.Name):
                self.err(node, 'index name is not an index list')
            if self.rev_slice(s):
                return Val(f'(rev {base.text})', 'v', base.origin, buf=base.buf)
            if isinstance(s, ast.Slice):
                if s.step is not None:
                    self.err(node, 'slice step')
                lo = 0 if s.lower is None else self.int_of(s.lower)
                if s.upper is None:
                    return Val(f'(from {lo} {base.text})', 'v', base.origin, buf=base.buf)
                return Val(f'(slice {lo} {self.int_of(s.upper)} {base.text})', 'v', base.origin, buf=base.buf)
            return Val(f'(vget O {base.text} {self.int_of(s)})', 's', base.origin, buf=base.buf)
        if base.kind == 'm' and len(idx) == 2:
            i, j = idx
            if self.full_slice(i) and self.rev_slice(j):
                return Val(f'(rev_cols {base.text})', 'm', base.origin, buf=base.buf)
            if self.full_slice(i) and not isinstance(j, ast.Slice):
                return Val(f'(col O {self.int_of(j)} {base.text})', 'v', base.origin, buf=base.buf)
            if not isinstance(i, ast.Slice) and not isinstance(j, ast.Slice):
                return Val(f'(mget O {base.text} {self.int_of(i)} {self.int_of(j)})', 's', base.origin, buf=base.buf)
        self.err(node, 'subscript form not in the grammar')

    def kw(self, node, allowed):
        out = {}
        for k in node.keywords:
            if k.arg not in allowed:
                self.err(node, f'keyword {k.arg}')
            out[k.arg] = k.value
        return out

    def call(self, node, env):
        f = node.func
        if self.is_np(f, 'reshape'):
            if len(node.args) != 2 or node.keywords:
                self.err(node, 'reshape arity')
            shape = node.args[1]
            dims = [self.const_num(e) for e in shape.elts] if isinstance(shape, ast.Tuple) else []
            if len(dims) == 3 and dims[0] == -1:
                r, c = int(dims[1]), int(dims[2])
                a0 = node.args[0]
                # np.array([[s0, ..., s8]]).T : the scalars, in order
                if isinstance(a0, ast.Attribute) and a0.attr == 'T' and isinstance(a0.value, ast.Call) \
                        and self.is_np(a0.value.func, 'array') and len(a0.value.args) == 1 \
                        and isinstance(a0.value.args[0], ast.List) and len(a0.value.args[0].elts) == 1 \
                        and isinstance(a0.value.args[0].elts[0], ast.List):
                    vals = [self.expr(e, env) for e in a0.value.args[0].elts[0].elts]
                    if any(v.kind != 's' for v in vals):
                        self.err(node, 'np.array([[...]]).T of non-scalars')
                    x = Val('[' + '; '.join(v.text for v in vals) + ']', 'v')
                else:
                    x = self.expr(a0, env)
                if x.kind != 'v':
                    self.err(node, 'reshape to matrix of a non-vector')
                return Val(f'(reshape {r} {c} {x.text})', 'm', x.origin, buf=x.buf)
            if len(dims) == 2 and dims[0] == -1:
                x = self.expr(node.args[0], env)
                if x.kind != 'm' or int(dims[1]) != 9:
                    self.err(node, 'reshape to (-1, 9) of a non 3x3 matrix')
                return Val(f'(flatten {x.text})', 'v', x.origin, buf=x.buf)
            self.err(node, 'reshape shape')
        if self.is_np(f, 'concatenate'):
            kw = self.kw(node, {'axis'})
            elts = self.elements(node.args[0], env) if len(node.args) == 1 else None
            if elts is None or self.const_num(kw.get('axis')) != 1:
                self.err(node, 'concatenate form')
            vals = [self.expr(e, env) for e in elts]
            if any(v.kind != 'v' for v in vals):
                self.err(node, 'concatenate of non-vectors')
            return Val('(' + ' ++ '.join(v.text for v in vals) + ')%list', 'v')
        if self.is_np(f, 'zeros'):
            if len(node.args) != 1 or node.keywords:
                self.err(node, 'zeros arity')
            a = node.args[0]
            if isinstance(a, ast.Attribute) and a.attr == 'shape':
                x = self.expr(a.value, env)
                if x.kind != 'v':
                    self.err(node, 'zeros(x.shape) of non-vector')
                return Val(f'(zeros O (List.length {x.text}))', 'v')
            if isinstance(a, ast.Tuple) and len(a.elts) == 2 and isinstance(a.elts[0], ast.Call) \
                    and isinstance(a.elts[0].func, ast.Name) and a.elts[0].func.id == 'len':
                return Val(f'(zeros O {self.int_of(a.elts[1])})', 'v')
            self.err(node, 'zeros form')
        if self.is_np(f, 'stack'):
            kw = self.kw(node, {'axis'})
            ax = self.const_num(kw.get('axis'))
            elts = self.elements(node.args[0], env) if len(node.args) == 1 else None
            if elts is None:
                self.err(node, 'stack form')
            vals = [self.expr(e, env) for e in elts]
            lst = '[' + '; '.join(v.text for v in vals) + ']'
            if all(v.kind == 'v' for v in vals) and ax == 2:
                return Val(f'(stack_cols O {lst})', 'm')
            if all(v.kind == 'v' for v in vals) and ax == 1:
                return Val(f'(stack_rows {lst})', 'm')
            if all(v.kind == 's' for v in vals) and ax == 1:
                return Val(lst, 'v')
            self.err(node, 'stack kinds/axis')
        if self.is_np(f, 'transpose'):
            if len(node.args) != 2 or self.int_list(node.args[1]) != [0, 2, 1]:
                self.err(node, 'transpose form')
            x = self.expr(node.args[0], env)
            if x.kind != 'm':
                self.err(node, 'transpose of non-matrix')
            return Val(f'(transpose O {x.text})', 'm', x.origin, buf=x.buf)
        if self.is_np(f, 'matmul'):
            if len(node.args) != 2 or node.keywords:
                self.err(node, 'matmul arity')
            a, b = self.expr(node.args[0], env), self.expr(node.args[1], env)
            if a.kind != 'm' or b.kind != 'm':
                self.err(node, 'matmul kinds')
            return Val(f'(mmul O {a.text} {b.text})', 'm')
        if self.is_np(f, 'cross'):
            if len(node.args) != 2 or node.keywords:
                self.err(node, 'cross arity')
            a, b = self.expr(node.args[0], env), self.expr(node.args[1], env)
            if a.kind != 'v' or b.kind != 'v':
                self.err(node, 'cross kinds')
            return Val(f'(cross O {a.text} {b.text})', 'v')
        if self.is_np(f, 'einsum'):
            return self.einsum(node, env)
        if self.is_np(f, 'linalg', 'eigh'):
            if len(node.args) != 1 or node.keywords:
                self.err(node, 'eigh arity')
            x = self.expr(node.args[0], env)
            if x.kind != 'm':
                self.err(node, 'eigh of non-matrix')
            self.info.needs_eigh = True
            return Val(f'(eigh {x.text})', 'tuple', tup=[Val('', 'v'), Val('', 'm')])
        if self.is_np(f, 'array'):
            # np.array([np.diag(x) for x in X])
            if len(node.args) == 1 and isinstance(node.args[0], ast.ListComp):
                lc = node.args[0]
                g = lc.generators
                if len(g) == 1 and not g[0].ifs and isinstance(g[0].target, ast.Name) and \
                        isinstance(lc.elt, ast.Call) and self.is_np(lc.elt.func, 'diag') and \
                        len(lc.elt.args) == 1 and isinstance(lc.elt.args[0], ast.Name) and \
                        lc.elt.args[0].id == g[0].target.id:
                    x = self.expr(g[0].iter, env)
                    if x.kind != 'v':
                        self.err(node, 'diag of non-vector')
                    return Val(f'(diag O {x.text})', 'm')
            self.err(node, 'np.array form')
        # self.elemental_data.get_attribute_data('name')
        if isinstance(f, ast.Attribute) and f.attr == 'get_attribute_data' and \
                isinstance(f.value, ast.Attribute) and f.value.attr == 'elemental_data' and \
                isinstance(f.value.value, ast.Name) and f.value.value.id == 'self':
            if len(node.args) != 1 or node.keywords or not isinstance(node.args[0], ast.Constant):
                self.err(node, 'get_attribute_data form')
            nm = self.aliases.get(node.args[0].value, node.args[0].value)
            if nm not in self.info.inputs:
                self.info.inputs.append(nm)
            self.info.read_order.setdefault(nm, ('own',))
            if self.info.read_order[nm] != ('own',):
                self.err(node, 'attribute read in two different row orders')
            return Val('in_' + nm, 'v', ('param', nm), buf='attr:' + nm)
        # self.elemental_data.get_attribute_ids('name'): the ids the rows of that attribute belong to
        if isinstance(f, ast.Attribute) and f.attr == 'get_attribute_ids' and \
                ast.dump(f.value) == ast.dump(ast.parse('self.elemental_data').body[0].value):
            if len(node.args) != 1 or node.keywords or not isinstance(node.args[0], ast.Constant):
                self.err(node, 'get_attribute_ids form')
            nm = self.aliases.get(node.args[0].value, node.args[0].value)
            return Val('', 'ids', ('ids_of', nm))
        # another translated function (functions.<f> or bare name)
        fname = f.id if isinstance(f, ast.Name) else (
            f.attr if isinstance(f, ast.Attribute) and isinstance(f.value, ast.Name)
            and f.value.id == 'functions' else None)
        if fname in self.fn:
            callee = self.fn[fname]
            args = {}
            names = [p[0] for p in callee.params]
            if len(node.args) > len(names):
                self.err(node, 'too many arguments')
            for n, a in zip(names, node.args):
                args[n] = a
            for k in node.keywords:
                if k.arg not in names or k.arg in args:
                    self.err(node, f'keyword {k.arg}')
                args[k.arg] = k.value
            texts = []
            origin = 'fresh'
            for n, kind, default in callee.params:
                if n in args:
                    v = self.expr(args[n], env)
                    want = kind
                    if kind == 'oi':
                        if v.kind == 'oi':
                            t = v.text
                        elif v.kind == 'i':
                            t = f'(Some {v.text})'
                        else:
                            self.err(node, 'order argument')
                    elif v.kind != want:
                        self.err(node, f'argument {n}: kind {v.kind}, expected {want}')
                    else:
                        t = v.text
                    if n in callee.mutates and v.origin != 'fresh':
                        self.note_mutation(v.origin)
                    if callee.ret_origin == ('param', n):
                        origin = v.origin
                else:
                    if default is None:
                        self.err(node, f'missing argument {n}')
                    t = default
                texts.append(t)
            if callee.needs_eigh:
                self.info.needs_eigh = True
            head = f'{fname} O' + (' eigh' if callee.needs_eigh else '')
            rk = callee.ret_kind
            if isinstance(rk, tuple):
                return Val(f'({head} {" ".join(texts)})', 'tuple', origin,
                           tup=[Val('', k) for k in rk[1]])
            return Val(f'({head} {" ".join(texts)})', rk, origin)
        helper = self.find_helper(f)
        if helper is not None:
            return self.inline(node, helper, env)
        self.err(node, 'call not in the grammar')

    def find_helper(self, f):
        """a private helper the call refers to: closure of the current function,
        module-level function of the same module, method of the same class"""
        if isinstance(f, ast.Name):
            if f.id in self.local_funcs:
                return ('closure', self.local_funcs[f.id])
            if f.id in self.here_funcs and f.id not in SIGS and f.id not in self.fn:
                return ('module', self.here_funcs[f.id])
        if isinstance(f, ast.Attribute) and isinstance(f.value, ast.Name):
            if f.value.id == 'functions' and f.attr in self.module_funcs and f.attr not in SIGS \
                    and f.attr not in self.fn:
                return ('module', self.module_funcs[f.attr])
            if f.value.id == 'self' and self.where == 'class' and f.attr in self.class_funcs \
                    and f.attr not in METHODS:
                return ('method', self.class_funcs[f.attr])
        return None

    def inline(self, node, helper, env):
        """translate the body of a private helper at its call site (its locals get a
        fresh prefix; a closure sees the caller's names)"""
        how, fdef = helper
        if self.depth >= 3:
            self.err(node, 'helper nesting too deep')
        a = fdef.args
        if a.vararg or a.kwarg or a.posonlyargs or fdef.decorator_list:
            self.err(node, 'helper signature')
        names = [x.arg for x in a.args] + [x.arg for x in a.kwonlyargs]
        defaults = dict(zip([x.arg for x in a.args][len(a.args) - len(a.defaults):], a.defaults))
        defaults.update({x.arg: d for x, d in zip(a.kwonlyargs, a.kw_defaults) if d is not None})
        if how == 'method':
            if not names or names[0] != 'self':
                self.err(node, 'helper method signature')
            names = names[1:]
        pos = [x.arg for x in a.args][(1 if how == 'method' else 0):]
        if len(node.args) > len(pos):
            self.err(node, 'helper: too many arguments')
        given = dict(zip(pos, node.args))
        for k in node.keywords:
            if k.arg not in names or k.arg in given:
                self.err(node, f'helper keyword {k.arg}')
            given[k.arg] = k.value
        env2 = dict(env) if how == 'closure' else {}
        for n in names:
            if n in given:
                env2[n] = self.expr(given[n], env)
            elif n in defaults:
                env2[n] = self.expr(defaults[n], {})
            else:
                self.err(node, f'helper: missing argument {n}')
            if env2[n].kind == 'tuple':
                self.err(node, 'helper: tuple argument')
        self.widen(f'private helper {fdef.name} inlined')
        saved = (self.prefix, self.local_funcs, getattr(self, 'local_names', set()))
        self.ninline += 1
        self.prefix = f'h{self.ninline}_'
        self.depth += 1
        if how != 'closure':
            self.local_funcs = {}
            self.local_names = self.stored_names(fdef)
        else:
            self.local_names = self.local_names | self.stored_names(fdef)
        try:
            mark = len(self.inplace_log)
            ret = self.block(fdef.body, env2, self.cur_lines, self.cur_outputs)
            # an in-place write inside the helper on a buffer the caller can see: the caller's
            # name for that buffer now denotes the written array (exactly one such name, same
            # kind; anything else is not in the grammar)
            for nm, b in self.inplace_log[mark:]:
                seen = [a_ for a_, v_ in env.items() if v_.buf is not None and v_.buf == b]
                if not seen:
                    continue
                new = env2.get(nm)
                if len(seen) != 1 or new is None or new.kind != env[seen[0]].kind or new.buf != b:
                    self.err(node, 'helper writes in place into an array the caller sees through several names')
                old = env[seen[0]]
                env[seen[0]] = Val(new.text, old.kind, old.origin, buf=b)
            if ret is None or ret.value is None:
                if how == 'method':
                    return Val('', 'none')
                self.err(node, 'helper without return value')
            if fdef.body[-1] is not ret:
                self.err(ret, 'helper: return is not the last statement')
            return self.expr(ret.value, env2)
        finally:
            self.prefix, self.local_funcs, self.local_names = saved
            self.depth -= 1

    @staticmethod
    def stored_names(fdef):
        out = {x.arg for x in fdef.args.args + fdef.args.kwonlyargs}
        for n in ast.walk(fdef):
            if isinstance(n, ast.Name) and isinstance(n.ctx, (ast.Store, ast.Del)):
                out.add(n.id)
            elif isinstance(n, ast.FunctionDef) and n is not fdef:
                out.add(n.name)
        return out

    def einsum(self, node, env):
        if len(node.args) < 2 or node.keywords or not isinstance(node.args[0], ast.Constant):
            self.err(node, 'einsum form')
        spec = node.args[0].value.replace(' ', '')
        if '->' not in spec:
            self.err(node, 'einsum without explicit output')
        ins, out = spec.split('->')
        ins = ins.split(',')
        ops = [self.expr(a, env) for a in node.args[1:]]
        if len(ins) != len(ops) or not out:
            self.err(node, 'einsum operand count')
        b = out[0]
        if any(not s or s[0] != b or b in s[1:] for s in ins + [out]):
            self.err(node, 'einsum: batch letter must come first everywhere')
        ins = [s[1:] for s in ins]
        out = out[1:]
        dim = {}
        for s, v in zip(ins, ops):
            if {1: 'v', 2: 'm'}.get(len(s)) != v.kind or len(set(s)) != len(s):
                self.err(node, 'einsum operand rank')
            for p, ch in enumerate(s):
                d = f'(List.length {v.text})' if p == 0 else f'(ncols {v.text})'
                dim.setdefault(ch, d)
        if len(set(out)) != len(out) or any(ch not in dim for ch in out) or len(out) not in (1, 2):
            self.err(node, 'einsum output')
        facs = []
        for s, v in zip(ins, ops):
            if len(s) == 1:
                facs.append(f'(vget O {v.text} i_{s[0]})')
            else:
                facs.append(f'(mget O {v.text} i_{s[0]} i_{s[1]})')
        body = facs[0]
        for t in facs[1:]:
            body = f'(mul O {body} {t})'
        for ch in sorted(set(''.join(ins)) - set(out)):
            body = f'(vsum O (tabulate {dim[ch]} (fun i_{ch} => {body})))'
        for ch in reversed(out):
            body = f'(tabulate {dim[ch]} (fun i_{ch} => {body}))'
        return Val(body, 'v' if len(out) == 1 else 'm')

    # --------------------------------------------------------- statements
    def note_mutation(self, origin):
        if isinstance(origin, tuple) and origin[0] == 'param':
            self.info.mutates.add(origin[1])

    def inplace(self, st, env):
        """x[:, k:] = e  |  x[:, :, k] = e  ->  (name, new Val)"""
        tgt = st.targets[0]
        if not isinstance(tgt.value, ast.Name) or tgt.value.id not in env:
            self.err(st, 'in-place target')
        nm = tgt.value.id
        base = env[nm]
        idx = list(tgt.slice.elts) if isinstance(tgt.slice, ast.Tuple) else [tgt.slice]
        idx = [self.norm_index(x) for x in idx]
        if not self.full_slice(idx[0]):
            self.err(st, 'in-place: batch index')
        rhs = self.expr(st.value, env)
        self.note_mutation(base.origin)
        self.inplace_log.append((nm, base.buf))
        for n2, v2 in env.items():
            if n2 != nm and v2.buf is not None and v2.buf == base.buf:
                v2.stale = True
        if base.kind == 'v' and len(idx) == 2 and isinstance(idx[1], ast.Slice) and \
                idx[1].upper is None and idx[1].step is None and idx[1].lower is not None:
            if rhs.kind != 'v':
                self.err(st, 'in-place rhs kind')
            k = self.int_of(idx[1].lower)
            return nm, Val(f'(set_from {k} {base.text} {rhs.text})', 'v', base.origin, buf=base.buf)
        if base.kind == 'm' and len(idx) == 3 and self.full_slice(idx[1]) and \
                not isinstance(idx[2], ast.Slice):
            if rhs.kind != 'v':
                self.err(st, 'in-place rhs kind')
            return nm, Val(f'(set_col {self.int_of(idx[2])} {base.text} {rhs.text})', 'm', base.origin, buf=base.buf)
        self.err(st, 'in-place form not in the grammar')

    def aug_to_assign(self, st):
        """x[...] op= e  ->  x[...] = x[...] op e"""
        import copy
        load = copy.deepcopy(st.target)
        for n_ in ast.walk(load):
            if isinstance(n_, (ast.Subscript, ast.Name)) and isinstance(n_.ctx, ast.Store):
                n_.ctx = ast.Load()
        self.widen('augmented assignment')
        return ast.copy_location(ast.Assign(
            targets=[st.target],
            value=ast.copy_location(ast.BinOp(left=load, op=st.op, right=st.value), st)), st)

    def bind(self, lines, env, name, val):
        """emit `let name := val in` and update env"""
        cn = cname(self.prefix + name)
        if val.kind == 'ids':
            env[name] = Val('', 'ids', val.origin)
            return
        lines.append(f'  let {cn} := {val.text} in')
        if val.buf is None:
            self.nbuf += 1
            val.buf = self.nbuf
        env[name] = Val(cn, val.kind, val.origin, val.tup, buf=val.buf)

    def block(self, body, env, lines, outputs):
        for st in body:
            if isinstance(st, ast.Expr) and isinstance(st.value, ast.Constant) and \
                    isinstance(st.value.value, str):
                continue
            # closure: remembered, inlined where it is called
            if isinstance(st, ast.FunctionDef):
                if st.name in env or st.decorator_list:
                    self.err(st, 'nested function form')
                self.local_funcs = dict(self.local_funcs)
                self.local_funcs[st.name] = st
                continue
            if isinstance(st, ast.Pass):
                continue
            # x[...] op= e  ==  x[...] = x[...] op e (same buffer) ; x op= e writes x's buffer
            if isinstance(st, ast.AugAssign) and isinstance(st.target, (ast.Subscript, ast.Name)):
                new = self.aug_to_assign(st)
                if isinstance(st.target, ast.Name):
                    nm = st.target.id
                    if nm not in env or env[nm].kind not in 'vm':
                        self.err(st, 'augmented assignment target')
                    base = env[nm]
                    v = self.expr(new.value, env)
                    if v.kind != base.kind:
                        self.err(st, 'augmented assignment kinds')
                    self.note_mutation(base.origin)      # in place: the buffer is written
                    for n2, v2 in env.items():
                        if n2 != nm and v2.buf is not None and v2.buf == base.buf:
                            v2.stale = True
                    self.bind(lines, env, nm, Val(v.text, base.kind, base.origin, buf=base.buf))
                    continue
                st = new
            # statement call of a private helper (e.g. one that stores the results)
            if isinstance(st, ast.Expr) and isinstance(st.value, ast.Call) and \
                    self.find_helper(st.value.func) is not None:
                self.inline(st.value, self.find_helper(st.value.func), env)
                continue
            # P = D if P is None else P  |  P = P if P is not None else D
            if isinstance(st, ast.Assign) and len(st.targets) == 1 and isinstance(st.targets[0], ast.Name) \
                    and isinstance(st.value, ast.IfExp) and isinstance(st.value.test, ast.Compare) and \
                    len(st.value.test.ops) == 1 and isinstance(st.value.test.left, ast.Name) and \
                    st.value.test.left.id == st.targets[0].id and \
                    isinstance(st.value.test.comparators[0], ast.Constant) and \
                    st.value.test.comparators[0].value is None and \
                    isinstance(st.value.test.ops[0], (ast.Is, ast.IsNot)):
                p = st.targets[0].id
                isn = isinstance(st.value.test.ops[0], ast.Is)
                dflt, keep = (st.value.body, st.value.orelse) if isn else (st.value.orelse, st.value.body)
                lst = self.int_list(dflt)
                if p in env and env[p].kind == 'oi' and isinstance(keep, ast.Name) and keep.id == p \
                        and lst is not None:
                    self.widen('default order as a conditional expression')
                    self.index_lists[f'{self.cur}.default_{p}'] = lst
                    self.bind(lines, env, p, Val(
                        f'match {env[p].text} with Some o_ => o_ | None => {nat_list(lst)} end', 'i'))
                    continue
            # if P is None: P = [ints]
            if isinstance(st, ast.If) and isinstance(st.test, ast.Compare) and \
                    isinstance(st.test.left, ast.Name) and len(st.test.ops) == 1 and \
                    isinstance(st.test.ops[0], ast.Is) and \
                    isinstance(st.test.comparators[0], ast.Constant) and \
                    st.test.comparators[0].value is None:
                p = st.test.left.id
                if p not in env or env[p].kind != 'oi' or st.orelse or len(st.body) != 1 or \
                        not isinstance(st.body[0], ast.Assign) or \
                        not isinstance(st.body[0].targets[0], ast.Name) or \
                        st.body[0].targets[0].id != p:
                    self.err(st, '`if P is None` form')
                lst = self.int_list(st.body[0].value)
                if lst is None:
                    self.err(st, 'default index list')
                self.index_lists[f'{self.cur}.default_{p}'] = lst
                self.bind(lines, env, p, Val(
                    f'match {env[p].text} with Some o_ => o_ | None => {nat_list(lst)} end', 'i'))
                continue
            # if flag: in-place updates of one name
            if isinstance(st, ast.If) and isinstance(st.test, ast.Name):
                fl = st.test.id
                if fl not in env or env[fl].kind != 'b' or st.orelse:
                    self.err(st, '`if flag` form')
                env2 = dict(env)
                changed = None
                stale_before = {n2 for n2, v2 in env.items() if v2.stale}
                for s2 in st.body:
                    # dtype guard: `if not np.issubdtype(X.dtype, np.inexact): X = X.astype(float)`
                    # (no effect on the values; the result is a fresh float array)
                    if isinstance(s2, ast.If) and not s2.orelse and len(s2.body) == 1 and \
                            isinstance(s2.body[0], ast.Assign) and \
                            isinstance(s2.body[0].targets[0], ast.Name):
                        x_ = s2.body[0].targets[0].id
                        want = ast.parse(f'if not np.issubdtype({x_}.dtype, np.inexact):\n'
                                         f'    {x_} = {x_}.astype(float)').body[0]
                        if ast.dump(s2) == ast.dump(want) and x_ in env2 and env2[x_].kind in 'vm':
                            v_ = env2[x_]
                            env2[x_] = Val(v_.text, v_.kind, v_.origin, buf=v_.buf)
                            self.integer_guards.append(f'{self.cur}:{x_}')
                            continue
                    if isinstance(s2, ast.AugAssign) and isinstance(s2.target, ast.Subscript):
                        s2 = self.aug_to_assign(s2)
                    if not (isinstance(s2, ast.Assign) and len(s2.targets) == 1 and
                            isinstance(s2.targets[0], ast.Subscript)):
                        self.err(s2, 'only in-place updates are allowed under `if flag`')
                    nm, v = self.inplace(s2, env2)
                    if changed not in (None, nm):
                        self.err(s2, 'two names updated under one `if flag`')
                    changed = nm
                    env2[nm] = v
                old = env[changed]
                self.bind(lines, env, changed, Val(
                    f'(if {env[fl].text} then {env2[changed].text} else {old.text})',
                    old.kind, old.origin))
                continue
            if isinstance(st, ast.Assign) and len(st.targets) == 1:
                tgt = st.targets[0]
                if isinstance(tgt, ast.Name):
                    lst = self.int_list(st.value)
                    if lst is not None:
                        self.index_lists[f'{self.cur}.{tgt.id}'] = lst
                        self.bind(lines, env, tgt.id, Val(nat_list(lst), 'i'))
                        continue
                    v = self.expr(st.value, env)
                    if v.kind == 'tuple':
                        self.err(st, 'tuple bound to one name')
                    self.bind(lines, env, tgt.id, v)
                    continue
                if isinstance(tgt, ast.Tuple) and all(isinstance(e, ast.Name) for e in tgt.elts):
                    v = self.expr(st.value, env)
                    if v.kind != 'tuple' or len(v.tup) != len(tgt.elts):
                        self.err(st, 'tuple unpacking')
                    names = [cname(self.prefix + e.id) for e in tgt.elts]
                    pat = names[0]
                    for n in names[1:]:
                        pat = f'({pat}, {n})'
                    lines.append(f"  let '{pat} := {v.text} in")
                    for e, n, t in zip(tgt.elts, names, v.tup):
                        self.nbuf += 1
                        env[e.id] = Val(n, t.kind, 'fresh', buf=self.nbuf)
                    continue
                if isinstance(tgt, ast.Subscript):
                    nm, v = self.inplace(st, env)
                    self.bind(lines, env, nm, v)
                    continue
                # self.<attr> = True/False : bookkeeping flag of the mesh object
                if isinstance(tgt, ast.Attribute) and isinstance(tgt.value, ast.Name) and \
                        tgt.value.id == 'self' and isinstance(st.value, ast.Constant) and \
                        isinstance(st.value.value, bool):
                    continue
                self.err(st, 'assignment form')
            # self.elemental_data.update_data(self.elements.ids, {...}, allow_overwrite=True)
            if isinstance(st, ast.Expr) and isinstance(st.value, ast.Call) and \
                    isinstance(st.value.func, ast.Attribute) and st.value.func.attr == 'update_data':
                c = st.value
                if ast.dump(c.func.value) != ast.dump(ast.parse('self.elemental_data').body[0].value) or \
                        len(c.args) != 2 or \
                        not isinstance(c.args[1], ast.Dict) or \
                        [(k.arg, getattr(k.value, 'value', None)) for k in c.keywords] != \
                        [('allow_overwrite', True)]:
                    self.err(st, 'update_data form')
                if ast.dump(c.args[0]) == ast.dump(ast.parse('self.elements.ids').body[0].value):
                    self.info.write_binding.append(('positional',))
                elif isinstance(c.args[0], ast.Name) and c.args[0].id in env and \
                        env[c.args[0].id].kind == 'ids':
                    self.info.write_binding.append(env[c.args[0].id].origin)
                else:
                    self.err(st, 'update_data ids argument')
                for k, v in zip(c.args[1].keys, c.args[1].values):
                    if not isinstance(k, ast.Constant) or not isinstance(k.value, str):
                        self.err(st, 'update_data key')
                    val = self.expr(v, env)
                    if val.kind != 'v':
                        self.err(st, 'update_data value kind')
                    outputs.append((self.aliases.get(k.value, k.value), val))
                continue
            if isinstance(st, ast.Return):
                return st
            self.err(st, 'statement form not in the grammar')
        return None

    # ---------------------------------------------------------- functions
    def function(self, fdef, is_method):
        self.cur = fdef.name
        info = self.info = FnInfo()
        env = {}
        self.local_funcs = {}
        self.local_names = self.stored_names(fdef)
        self.prefix = ''
        self.where = 'class' if is_method else 'functions'
        a = fdef.args
        if a.vararg or a.kwarg or a.posonlyargs:
            self.err(fdef, 'signature')
        if is_method:
            if [x.arg for x in a.args] != ['self'] or a.kwonlyargs:
                self.err(fdef, 'method signature')
        else:
            names = [x.arg for x in a.args] + [x.arg for x in a.kwonlyargs]
            sig = SIGS[fdef.name]
            if names != [n for n, _ in sig]:
                self.err(fdef, f'parameters {names} differ from the signature table')
            defaults = [None] * (len(a.args) - len(a.defaults)) + list(a.defaults) + list(a.kw_defaults)
            for (n, k), d in zip(sig, defaults):
                dt = None
                if d is not None:
                    if not isinstance(d, ast.Constant):
                        self.err(fdef, 'default value')
                    if k == 'b' and isinstance(d.value, bool):
                        dt = 'true' if d.value else 'false'
                    elif k == 'oi' and d.value is None:
                        dt = 'None'
                    else:
                        self.err(fdef, 'default value')
                info.params.append((n, k, dt))
                self.nbuf += 1
                env[n] = Val(cname(n), k, ('param', n), buf=self.nbuf)
        lines, outputs = [], []
        self.cur_lines, self.cur_outputs = lines, outputs
        ret = self.block(fdef.body, env, lines, outputs)
        if ret is not None and fdef.body[-1] is not ret:
            self.err(ret, 'return is not the last statement')
        if is_method:
            if ret is not None and ret.value is not None:
                self.err(ret, 'method returns a value')
            if not outputs:
                self.err(fdef, 'method writes no attribute')
            info.outputs = [n for n, _ in outputs]
            res = '(' + ', '.join(v.text for _, v in outputs) + ')' if len(outputs) > 1 \
                else outputs[0][1].text
            info.params = [('in_' + n, 'v', None) for n in info.inputs]
            info.ret_kind = ('tuple', ['v'] * len(outputs)) if len(outputs) > 1 else 'v'
            ptxt = ' '.join(f'(in_{n} : vec T)' for n in info.inputs)
        else:
            if ret is None or ret.value is None:
                self.err(fdef, 'function without return value')
            v = self.expr(ret.value, env)
            res = v.text
            info.ret_kind = ('tuple', [t.kind for t in v.tup]) if v.kind == 'tuple' else v.kind
            info.ret_origin = v.origin
            ptxt = ' '.join(f'({cname(n)} : {COQ_KIND[k]})' for n, k, _ in info.params)
        eig = ' (eigh : mat T -> vec T * mat T)' if info.needs_eigh else ''
        info.text = (f'Definition {fdef.name} {{T}} (O : Ops T){eig} {ptxt} :=\n' +
                     '\n'.join(lines) + ('\n' if lines else '') + f'  {res}.\n')
        self.fn[fdef.name] = info
        for p in sorted(info.mutates):
            self.mutated_caller.append(f'{fdef.name}:{p}')
        return info


def _find_funcs(tree, names, cls=None):
    out = {}
    body = tree.body
    if cls:
        cl = [n for n in tree.body if isinstance(n, ast.ClassDef) and n.name == cls]
        if len(cl) != 1:
            raise TranslateError(f'class {cls} not found')
        body = cl[0].body
    for n in body:
        if isinstance(n, ast.FunctionDef) and n.name in names:
            if n.name in out:
                raise TranslateError(f'{n.name} defined twice')
            if n.decorator_list:
                raise TranslateError(f'{n.name} is decorated')
            out[n.name] = n
    missing = [n for n in names if n not in out]
    if missing:
        raise TranslateError(f'functions not found: {missing}')
    return out


def _aliases(cfg_tree):
    """DICT_ALIASES = dict(DICT_ALIASES_CORE) + identity on the core's values"""
    core = None
    derived = False
    for n in cfg_tree.body:
        if isinstance(n, ast.Assign) and len(n.targets) == 1 and isinstance(n.targets[0], ast.Name):
            if n.targets[0].id == 'DICT_ALIASES_CORE':
                if not isinstance(n.value, ast.Dict) or core is not None:
                    raise TranslateError('DICT_ALIASES_CORE is not one literal dict')
                core = {}
                for k, v in zip(n.value.keys, n.value.values):
                    if not (isinstance(k, ast.Constant) and isinstance(v, ast.Constant)):
                        raise TranslateError('DICT_ALIASES_CORE entry is not a pair of literals')
                    if k.value in core:
                        raise TranslateError('duplicate alias key ' + repr(k.value))
                    core[k.value] = v.value
            elif n.targets[0].id == 'DICT_ALIASES':
                if ast.dump(n.value) != ast.dump(ast.parse('dict(DICT_ALIASES_CORE)').body[0].value) \
                        or derived:
                    raise TranslateError('DICT_ALIASES is not dict(DICT_ALIASES_CORE)')
                derived = True
    if core is None or not derived:
        raise TranslateError('config.DICT_ALIASES(_CORE) not found')
    out = dict(core)
    for v in core.values():
        out.setdefault(v, v)
    return out


def coq_str(s):
    return '"' + s.replace('"', '""') + '"'


def _strip_docstrings(node):
    for n in ast.walk(node):
        if isinstance(n, (ast.FunctionDef, ast.Module)) and n.body and \
                isinstance(n.body[0], ast.Expr) and isinstance(n.body[0].value, ast.Constant) and \
                isinstance(n.body[0].value.value, str):
            n.body = n.body[1:] or [ast.Pass()]
    return node


NARROWING = ('int32', 'int16', 'uint32', 'float32', 'float16', 'intc', 'indices.dtype',
             'indptr.dtype', 'astype')


def check_align_nnz_body(repo):
    """align_nnz is a HAND model (Model.align_nnz).  Its tie to the source is an
    exact-body match: the function must be, up to comments/docstrings/layout, the
    text the model was written from (translate/c17_align_nnz_expected.txt).
    Returns (ok, message, sha256 of the current source region)."""
    src = (Path(repo) / 'femio' / 'functions.py').read_text()
    fns = [n for n in ast.parse(src).body if isinstance(n, ast.FunctionDef) and n.name == 'align_nnz']
    if len(fns) != 1:
        return False, 'functions.align_nnz not found exactly once', ''
    seg = ast.get_source_segment(src, fns[0])
    sha = hashlib.sha256(seg.encode()).hexdigest()
    want = (Path(__file__).resolve().parent / 'c17_align_nnz_expected.txt').read_text()
    a = ast.dump(_strip_docstrings(ast.parse(seg)))
    b = ast.dump(_strip_docstrings(ast.parse(want)))
    if a == b:
        return True, '', sha
    # point at dtype-narrowing idioms (flat keys / positions must stay 64 bit)
    hits = sorted({w for w in NARROWING if w in seg and w not in want})
    msg = 'align_nnz differs from the text the placement model was written from'
    if hits:
        msg += '; dtype-narrowing idioms that the model does not have: ' + ', '.join(hits)
    return False, msg, sha


def translate(repo):
    repo = Path(repo)
    src_f = (repo / 'femio' / 'functions.py').read_text()
    src_s = (repo / 'femio' / 'signal_processor.py').read_text()
    src_c = (repo / 'femio' / 'config.py').read_text()
    tf, ts, tc = ast.parse(src_f), ast.parse(src_s), ast.parse(src_c)
    aliases = _aliases(tc)
    tr = Translator(aliases)
    ff = _find_funcs(tf, FUNCTIONS_ORDER)
    fm = _find_funcs(ts, METHODS, cls='SignalProcessorMixin')
    consumed = {}
    tr.module_funcs = {n.name: n for n in tf.body if isinstance(n, ast.FunctionDef)}
    tr.here_funcs = tr.module_funcs
    tr.load_consts(tf)
    for n in FUNCTIONS_ORDER:
        tr.function(ff[n], False)
        consumed['functions.py:' + n] = hashlib.sha256(
            ast.get_source_segment(src_f, ff[n]).encode()).hexdigest()
    tr.here_funcs = {n.name: n for n in ts.body if isinstance(n, ast.FunctionDef)}
    tr.class_funcs = {n.name: n for c_ in ts.body if isinstance(c_, ast.ClassDef)
                      and c_.name == 'SignalProcessorMixin' for n in c_.body
                      if isinstance(n, ast.FunctionDef)}
    tr.load_consts(ts)
    for n in METHODS:
        tr.function(fm[n], True)
        consumed['signal_processor.py:' + n] = hashlib.sha256(
            ast.get_source_segment(src_s, fm[n]).encode()).hexdigest()
    used = sorted({k for k, v in aliases.items()
                   if v in tr.fn[METHODS[0]].inputs + tr.fn[METHODS[0]].outputs +
                   tr.fn[METHODS[1]].inputs + tr.fn[METHODS[1]].outputs})
    consumed['config.py:DICT_ALIASES(used)'] = hashlib.sha256(
        repr([(k, aliases[k]) for k in used]).encode()).hexdigest()
    return tr, consumed


def binding_by_id(info):
    """every update_data of the method is bound to ids_of A, A is read in its own
    order and every other attribute read is filtered with the ids of A"""
    if not info.write_binding or any(b[0] != 'ids_of' for b in info.write_binding):
        return False
    anchors = {b[1] for b in info.write_binding}
    if len(anchors) != 1:
        return False
    a = anchors.pop()
    if info.read_order.get(a) != ('own',):
        return False
    return all(o == ('ids_of', a) for n, o in info.read_order.items() if n != a)


def emit(tr):
    out = ['(* GENERATED by translate/c17_tensor.py from femio/functions.py and',
           '   femio/signal_processor.py of the tree under test -- do not edit. *)',
           'From Coq Require Import String List ZArith.',
           'Import ListNotations.',
           'From FV.C17 Require Import Model.',
           '']
    for n in FUNCTIONS_ORDER + METHODS:
        out.append(tr.fn[n].text)
    sl = lambda xs: '[' + '; '.join(coq_str(x) for x in xs) + ']%string'
    for n in METHODS:
        out.append(f'Definition {n}_reads : list string := {sl(tr.fn[n].inputs)}.')
        out.append(f'Definition {n}_writes : list string := {sl(tr.fn[n].outputs)}.')
    out.append('')
    out.append('(* row binding of the two methods: the rows a method writes are computed, row by')
    out.append('   row, from the rows of the attributes it reads.  by_id = the written rows are')
    out.append('   attached to the ids of the attribute they were computed from (and every other')
    out.append('   attribute is read in the order of those ids); otherwise they are attached')
    out.append('   positionally to self.elements.ids *)')
    for n in METHODS:
        out.append(f'Definition {n}_bound_by_id : bool := {str(binding_by_id(tr.fn[n])).lower()}.')
    out.append('')
    out.append('(* arrays that are cast to a floating dtype before `/ 2` is assigned back into them')
    out.append('   (integer input arrays would otherwise be truncated; dtype is outside the real model) *)')
    out.append(f'Definition integer_inputs_cast_before_halving : list string := {sl(tr.integer_guards)}.')
    out.append('')
    out.append('(* conservative alias summary: caller-owned arrays (function:parameter, or')
    out.append('   method:mesh attribute) that some statement may write in place *)')
    out.append(f'Definition mutated_caller_arrays : list string := {sl(tr.mutated_caller)}.')
    return '\n'.join(out) + '\n'


if __name__ == '__main__':
    import sys
    tr, consumed = translate(sys.argv[1] if len(sys.argv) > 1 else '/repo')
    sys.stdout.write(emit(tr))
