"""A small fail-closed evaluator for the pure fragment of Python the FrontISTR code tables are
written in: the translator (c01_tables.py) reads a table / decision / column permutation by
EVALUATING the code on concrete inputs (every element type name, a symbolic 2-D array whose
columns are tracked) instead of matching how it is spelled.

Accepted: constants, tuples / lists / dicts / sets, names (locals, then class attributes through
`self.X` / `cls.X` / `ClassName.X`, then module-level constants), subscripts, comparisons, boolean
operators, conditional expressions, f-strings, comprehensions, calls of len / range / zip /
enumerate / dict / list / tuple / sorted / reversed / str / int, the dict methods items / keys /
values / get, and on the symbolic array: a[:, i], a[:, [i, ...]], a[..., i], a.T[i], a.copy(),
np.stack / np.column_stack / np.array / np.concatenate of columns with the column axis,
np.take(a, idx, axis=1 | -1).  Statements: assignment to local names, if / for / return / raise /
pass / docstring, try ... except KeyError around a lookup.  Anything else (in particular every
store into a subscript or attribute = an in-place change) raises Unsupported.
"""
import ast


class Unsupported(Exception):
    pass


class Raised(Exception):
    """the evaluated code raises"""


class Cols:
    """symbolic 2-D array: the listed columns of the argument array, rows untouched"""

    def __init__(self, cols):
        self.cols = list(cols)


class Col:
    """one column of the argument array"""

    def __init__(self, i):
        self.i = i


class _Return(Exception):
    def __init__(self, v):
        self.v = v


SAFE_CALLS = {'len': len, 'range': range, 'zip': zip, 'enumerate': enumerate, 'dict': dict,
              'list': list, 'tuple': tuple, 'sorted': sorted, 'reversed': reversed, 'str': str,
              'int': int, 'set': set, 'frozenset': frozenset}


class Interp:
    def __init__(self, module_tree, cls=None, fuel=20000):
        self.module = module_tree
        self.cls = cls
        self.fuel = fuel
        self._mod_cache = {}
        self._cls_cache = {}

    # ---------------------------------------------------------------- constants
    def _assigned(self, body, name):
        found = [n for n in body if isinstance(n, ast.Assign) and len(n.targets) == 1
                 and isinstance(n.targets[0], ast.Name) and n.targets[0].id == name]
        found += [n for n in body if isinstance(n, ast.AnnAssign) and isinstance(n.target, ast.Name)
                  and n.target.id == name and n.value is not None]
        if len(found) != 1:
            raise Unsupported(f'{name}: {len(found)} definitions')
        return found[0].value

    def _never_modified(self, name):
        for n in ast.walk(self.module):
            tg = []
            if isinstance(n, ast.Assign):
                tg = n.targets
            elif isinstance(n, (ast.AugAssign, ast.AnnAssign)):
                tg = [n.target]
            elif isinstance(n, ast.Delete):
                tg = n.targets
            for t in tg:
                if isinstance(t, (ast.Subscript, ast.Attribute)):
                    base = t.value
                    while isinstance(base, (ast.Subscript, ast.Attribute)) and not (
                            isinstance(base, ast.Attribute) and base.attr == name):
                        base = base.value
                    if (isinstance(base, ast.Name) and base.id == name) or \
                            (isinstance(base, ast.Attribute) and base.attr == name):
                        raise Unsupported(f'{name} is modified after its definition')
            if isinstance(n, ast.Call) and isinstance(n.func, ast.Attribute) and n.func.attr in (
                    'update', 'pop', 'append', 'extend', 'insert', 'remove', 'clear', 'setdefault',
                    'popitem', 'sort', 'reverse'):
                b = n.func.value
                if (isinstance(b, ast.Name) and b.id == name) or \
                        (isinstance(b, ast.Attribute) and b.attr == name):
                    raise Unsupported(f'{name} is modified by .{n.func.attr}()')

    def module_const(self, name):
        if name not in self._mod_cache:
            self._never_modified(name)
            self._mod_cache[name] = self.expr(self._assigned(self.module.body, name), {})
        return self._mod_cache[name]

    def class_const(self, name):
        if self.cls is None:
            raise Unsupported('no class')
        if name not in self._cls_cache:
            self._never_modified(name)
            self._cls_cache[name] = self.expr(self._assigned(self.cls.body, name), {})
        return self._cls_cache[name]

    # ---------------------------------------------------------------- expressions
    def expr(self, n, env):
        self.fuel -= 1
        if self.fuel < 0:
            raise Unsupported('evaluation does not terminate')
        if isinstance(n, ast.Constant):
            return n.value
        if isinstance(n, ast.Name):
            if n.id in env:
                return env[n.id]
            return self.module_const(n.id)
        if isinstance(n, ast.Attribute):
            if isinstance(n.value, ast.Name) and n.value.id not in env and (
                    n.value.id in ('self', 'cls') or (self.cls is not None and n.value.id == self.cls.name)):
                return self.class_const(n.attr)
            v = self.expr(n.value, env)
            if isinstance(v, Cols) and n.attr == 'T':
                return ('T', v)
            raise Unsupported(f'attribute .{n.attr}')
        if isinstance(n, (ast.Tuple, ast.List, ast.Set)):
            vals = []
            for e in n.elts:
                if isinstance(e, ast.Starred):
                    vals += list(self.expr(e.value, env))
                else:
                    vals.append(self.expr(e, env))
            return tuple(vals) if isinstance(n, ast.Tuple) else (vals if isinstance(n, ast.List) else set(vals))
        if isinstance(n, ast.Dict):
            d = {}
            for k, v in zip(n.keys, n.values):
                if k is None:
                    d.update(self.expr(v, env))
                else:
                    d[self.expr(k, env)] = self.expr(v, env)
            return d
        if isinstance(n, ast.Subscript):
            return self.subscript(self.expr(n.value, env), n.slice, env)
        if isinstance(n, ast.Compare):
            left = self.expr(n.left, env)
            for op, c in zip(n.ops, n.comparators):
                right = self.expr(c, env)
                if isinstance(left, (Cols, Col)) or isinstance(right, (Cols, Col)):
                    raise Unsupported('comparison of array values')
                if isinstance(op, ast.Eq):
                    r = left == right
                elif isinstance(op, ast.NotEq):
                    r = left != right
                elif isinstance(op, ast.In):
                    r = left in right
                elif isinstance(op, ast.NotIn):
                    r = left not in right
                elif isinstance(op, ast.Is):
                    r = left is right
                elif isinstance(op, ast.IsNot):
                    r = left is not right
                else:
                    raise Unsupported('comparison operator')
                if not r:
                    return False
                left = right
            return True
        if isinstance(n, ast.BoolOp):
            r = None
            for v in n.values:
                r = self.expr(v, env)
                if isinstance(n.op, ast.And) and not r:
                    return r
                if isinstance(n.op, ast.Or) and r:
                    return r
            return r
        if isinstance(n, ast.UnaryOp):
            v = self.expr(n.operand, env)
            if isinstance(n.op, ast.Not):
                return not v
            if isinstance(n.op, ast.USub) and isinstance(v, int):
                return -v
            raise Unsupported('unary operator')
        if isinstance(n, ast.BinOp) and isinstance(n.op, ast.Add):
            a, b = self.expr(n.left, env), self.expr(n.right, env)
            if type(a) is type(b) and isinstance(a, (str, list, tuple, int)):
                return a + b
            raise Unsupported('+ on these values')
        if isinstance(n, ast.IfExp):
            return self.expr(n.body if self.expr(n.test, env) else n.orelse, env)
        if isinstance(n, ast.JoinedStr):
            out = ''
            for v in n.values:
                if isinstance(v, ast.Constant):
                    out += v.value
                else:
                    if v.format_spec is not None or v.conversion not in (-1, 115):
                        raise Unsupported('format spec in f-string')
                    x = self.expr(v.value, env)
                    if not isinstance(x, (str, int)):
                        raise Unsupported('f-string of a non-string')
                    out += str(x)
            return out
        if isinstance(n, (ast.ListComp, ast.GeneratorExp, ast.SetComp, ast.DictComp)):
            return self.comprehension(n, env)
        if isinstance(n, ast.Call):
            return self.call(n, env)
        raise Unsupported(type(n).__name__)

    def comprehension(self, n, env):
        out = []

        def go(k, e):
            if k == len(n.generators):
                if isinstance(n, ast.DictComp):
                    out.append((self.expr(n.key, e), self.expr(n.value, e)))
                else:
                    out.append(self.expr(n.elt, e))
                return
            g = n.generators[k]
            if g.is_async:
                raise Unsupported('async')
            for item in self.iterate(self.expr(g.iter, e)):
                e2 = dict(e)
                self.bind(g.target, item, e2)
                if all(self.expr(c, e2) for c in g.ifs):
                    go(k + 1, e2)
        go(0, env)
        if isinstance(n, ast.DictComp):
            return dict(out)
        if isinstance(n, ast.SetComp):
            return set(out)
        return out

    def iterate(self, v):
        if isinstance(v, (list, tuple, range, dict, set, frozenset, str)) or type(v).__name__ in (
                'dict_items', 'dict_keys', 'dict_values', 'zip', 'enumerate', 'reversed',
                'list_reverseiterator'):
            items = list(v)
            if len(items) > 1000:
                raise Unsupported('long iteration')
            return items
        raise Unsupported('iteration over ' + type(v).__name__)

    def bind(self, target, value, env):
        if isinstance(target, ast.Name):
            env[target.id] = value
        elif isinstance(target, (ast.Tuple, ast.List)):
            vals = list(value) if isinstance(value, (tuple, list)) else None
            if vals is None or len(vals) != len(target.elts):
                raise Unsupported('unpacking')
            for t, v in zip(target.elts, vals):
                self.bind(t, v, env)
        else:
            raise Unsupported('store into ' + type(target).__name__ + ' (in-place change)')

    def _int_list(self, v):
        if isinstance(v, (list, tuple, range)) and all(isinstance(i, int) and not isinstance(i, bool)
                                                       for i in v):
            return list(v)
        raise Unsupported('column index list')

    def subscript(self, v, sl, env):
        if isinstance(v, tuple) and len(v) == 2 and v[0] == 'T' and isinstance(v[1], Cols):
            i = self.expr(sl, env)                         # a.T[i] = column i
            if isinstance(i, int):
                return Col(self._pick(v[1], i))
            raise Unsupported('a.T[...]')
        if isinstance(v, Cols):
            if isinstance(sl, ast.Tuple) and len(sl.elts) == 2:
                rows, c = sl.elts
                full = (isinstance(rows, ast.Slice) and rows.lower is None and rows.upper is None
                        and rows.step is None) or (isinstance(rows, ast.Constant) and rows.value is Ellipsis)
                if not full:
                    raise Unsupported('row selection')
                if isinstance(c, ast.Slice):
                    lo = None if c.lower is None else self.expr(c.lower, env)
                    hi = None if c.upper is None else self.expr(c.upper, env)
                    st = None if c.step is None else self.expr(c.step, env)
                    return Cols(v.cols[slice(lo, hi, st)])
                i = self.expr(c, env)
                if isinstance(i, int) and not isinstance(i, bool):
                    return Col(self._pick(v, i))
                return Cols([self._pick(v, k) for k in self._int_list(i)])
            raise Unsupported('array subscript')
        if isinstance(v, (dict, list, tuple, str)):
            if isinstance(sl, ast.Slice):
                if isinstance(v, dict):
                    raise Unsupported('slice of dict')
                lo = None if sl.lower is None else self.expr(sl.lower, env)
                hi = None if sl.upper is None else self.expr(sl.upper, env)
                st = None if sl.step is None else self.expr(sl.step, env)
                return v[slice(lo, hi, st)]
            k = self.expr(sl, env)
            try:
                return v[k]
            except (KeyError, IndexError, TypeError) as e:
                raise Raised(type(e).__name__)
        raise Unsupported('subscript of ' + type(v).__name__)

    def _pick(self, v, i):
        n = len(v.cols)
        if not -n <= i < n:
            raise Raised('IndexError')
        return v.cols[i]

    def _axis(self, n, env, want):
        kws = {k.arg: self.expr(k.value, env) for k in n.keywords}
        if set(kws) - {'axis'}:
            raise Unsupported('keyword of np call')
        return kws.get('axis')

    def call(self, n, env):
        f = n.func
        if isinstance(f, ast.Name) and f.id in SAFE_CALLS and f.id not in env:
            if n.keywords:
                raise Unsupported('keyword arguments')
            args = [self.expr(a, env) for a in n.args]
            if any(isinstance(a, (Cols, Col)) for a in args):
                raise Unsupported(f'{f.id} of an array')
            r = SAFE_CALLS[f.id](*args)
            return list(r) if f.id in ('zip', 'enumerate', 'reversed', 'range') else r
        if isinstance(f, ast.Attribute):
            if isinstance(f.value, ast.Name) and f.value.id in ('np', 'numpy') and f.value.id not in env:
                return self.np_call(f.attr, n, env)
            v = self.expr(f.value, env)
            if isinstance(v, dict) and f.attr in ('items', 'keys', 'values') and not n.args and not n.keywords:
                return list(getattr(v, f.attr)())
            if isinstance(v, dict) and f.attr == 'get' and 1 <= len(n.args) <= 2 and not n.keywords:
                args = [self.expr(a, env) for a in n.args]
                return v.get(*args)
            if isinstance(v, (list, tuple)) and f.attr == 'index' and len(n.args) == 1 and not n.keywords:
                try:
                    return list(v).index(self.expr(n.args[0], env))
                except ValueError:
                    raise Raised('ValueError')
            if isinstance(v, Cols) and f.attr == 'copy' and not n.args and not n.keywords:
                return Cols(v.cols)
            raise Unsupported(f'method .{f.attr}()')
        raise Unsupported('call of ' + ast.unparse(f))

    def np_call(self, name, n, env):
        args = [self.expr(a, env) for a in n.args]
        axis = self._axis(n, env, None)
        if name in ('stack', 'column_stack', 'concatenate', 'hstack') and len(args) == 1 \
                and isinstance(args[0], (list, tuple)):
            parts = list(args[0])
            if name in ('stack', 'column_stack') and all(isinstance(p, Col) for p in parts):
                if (name == 'stack' and axis in (-1, 1)) or (name == 'column_stack' and axis is None):
                    return Cols([p.i for p in parts])
            if name in ('concatenate', 'hstack') and all(isinstance(p, Cols) for p in parts):
                if (name == 'concatenate' and axis in (-1, 1)) or (name == 'hstack' and axis is None):
                    return Cols([c for p in parts for c in p.cols])
            raise Unsupported(f'np.{name} of these parts / axis')
        if name == 'take' and len(args) == 2 and isinstance(args[0], Cols) and axis in (1, -1):
            return Cols([self._pick(args[0], k) for k in self._int_list(args[1])])
        if name in ('array', 'asarray') and len(args) == 1 and axis is None:
            if isinstance(args[0], Cols):
                return Cols(args[0].cols)
            return args[0]                       # an index list stays an index list
        if name == 'copy' and len(args) == 1 and isinstance(args[0], Cols) and axis is None:
            return Cols(args[0].cols)
        raise Unsupported(f'np.{name}')

    # ---------------------------------------------------------------- statements
    def block(self, body, env):
        for s in body:
            self.stmt(s, env)

    def stmt(self, s, env):
        self.fuel -= 1
        if self.fuel < 0:
            raise Unsupported('evaluation does not terminate')
        if isinstance(s, ast.Expr) and isinstance(s.value, ast.Constant):
            return
        if isinstance(s, ast.Pass):
            return
        if isinstance(s, ast.Return):
            raise _Return(None if s.value is None else self.expr(s.value, env))
        if isinstance(s, ast.Raise):
            raise Raised(ast.unparse(s.exc.func) if isinstance(s.exc, ast.Call) else 'raise')
        if isinstance(s, ast.Assign):
            v = self.expr(s.value, env)
            for t in s.targets:
                self.bind(t, v, env)
            return
        if isinstance(s, ast.If):
            self.block(s.body if self.expr(s.test, env) else s.orelse, env)
            return
        if isinstance(s, ast.For):
            for item in self.iterate(self.expr(s.iter, env)):
                self.bind(s.target, item, env)
                self.block(s.body, env)       # break / continue are not in the fragment
            self.block(s.orelse, env)
            return
        if isinstance(s, ast.Try) and not s.finalbody and not s.orelse and len(s.handlers) == 1 \
                and isinstance(s.handlers[0].type, ast.Name) \
                and s.handlers[0].type.id in ('KeyError', 'IndexError', 'ValueError'):
            try:
                self.block(s.body, env)
            except Raised as e:
                if str(e) != s.handlers[0].type.id:
                    raise
                self.block(s.handlers[0].body, env)
            return
        raise Unsupported('statement ' + type(s).__name__)

    def run(self, fn, args):
        """evaluate the function on the given arguments (dict name -> value; `self` is implicit).
        -> ('return', value) | ('raise', what)"""
        names = [a.arg for a in fn.args.args if a.arg not in ('self', 'cls')]
        if fn.args.vararg or fn.args.kwarg or fn.args.kwonlyargs or set(names) != set(args):
            raise Unsupported('signature of ' + fn.name)
        env = dict(args)
        try:
            self.block(fn.body, env)
        except _Return as r:
            return ('return', r.v)
        except Raised as e:
            return ('raise', str(e))
        return ('return', None)
