"""C10 — self-test of the face-table translator (translate/c10_tables.py), run on every check.

The translator claims to read MEANING.  This feeds it one fixed reference module (the shape of
femio/graph_processor.py at the registered tree, embedded here so that the test does not depend
on the tree under test) in several spellings that denote the SAME tables — each must translate
to the reference result — and several edits that denote DIFFERENT tables or something it cannot
know — each must translate to a different result or fail closed.  A spelling the grammar accepts
with the wrong meaning would show here as `variant ... differs` / `mutant ... accepted unchanged`.
"""
import ast
import sys
from pathlib import Path

sys.path.insert(0, str(Path(__file__).resolve().parent))
import c10_tables as T  # noqa

REFERENCE = '''
import numpy as np

class GraphProcessorMixin:

    def extract_surface_fistr(self):
        data = self.elements.data
        N = len(data)
        surfs = np.empty((4 * N, 5), np.int32)
        surfs[0 * N:1 * N, :3] = data[:, [0, 1, 2]]
        surfs[1 * N:2 * N, :3] = data[:, [0, 1, 3]]
        surfs[2 * N:3 * N, :3] = data[:, [1, 2, 3]]
        surfs[3 * N:4 * N, :3] = data[:, [2, 0, 3]]
        surfs[0 * N:1 * N, 3] = self.elements.ids
        surfs[1 * N:2 * N, 3] = self.elements.ids
        surfs[2 * N:3 * N, 3] = self.elements.ids
        surfs[3 * N:4 * N, 3] = self.elements.ids
        surfs[0 * N:1 * N, 4] = 1
        surfs[1 * N:2 * N, 4] = 2
        surfs[2 * N:3 * N, 4] = 3
        surfs[3 * N:4 * N, 4] = 4
        surfs[:, :3].sort(axis=1)
        surfs = surfs[np.lexsort((surfs[:, 4], surfs[:, 3]))]
        return surfs[:, 3:]

    def _generate_all_faces(self, elements=None, element_type=None, method=None):
        if method is None:
            method = np.concatenate
        if isinstance(elements, np.ndarray):
            elements_data = elements
        else:
            elements_data = elements.data
        if element_type in ['tri', 'quad', 'polygon']:
            face_ids = elements.data
        elif element_type == 'tet':
            face_ids = method([
                np.stack([
                    [element[0], element[2], element[1]],
                    [element[0], element[1], element[3]],
                    [element[1], element[2], element[3]],
                    [element[0], element[3], element[2]],
                ]) for element in elements_data])
        elif element_type == 'tet2':
            tet1_elements = elements_data[:, :4]
            face_ids = self._generate_all_faces(
                tet1_elements, 'tet', method=method)
        elif element_type == 'hex':
            face_ids = method([[
                [e[0], e[1], e[5], e[4]],
                [e[0], e[3], e[2], e[1]],
                [e[1], e[2], e[6], e[5]],
                [e[2], e[3], e[7], e[6]],
                [e[3], e[0], e[4], e[7]],
                [e[4], e[5], e[6], e[7]]]
                for e in elements_data])
        elif element_type == 'pyr':
            face_ids = (
                method([[[e[0], e[1], e[4]], [e[1], e[2], e[4]], [e[2], e[3], e[4]], [e[3], e[0], e[4]]]
                        for e in elements_data]),
                method([[[e[0], e[3], e[2], e[1]]] for e in elements_data]))
        elif element_type == 'prism':
            face_ids = (
                method([[[e[0], e[1], e[2]], [e[3], e[5], e[4]]] for e in elements_data]),
                method([[[e[0], e[3], e[4], e[1]], [e[1], e[4], e[5], e[2]], [e[0], e[2], e[5], e[3]]]
                        for e in elements_data]))
        elif element_type == 'hexprism':
            face_ids = method([[
                [e[0], e[5], e[4], e[1]], [e[1], e[4], e[3], e[2]], [e[5], e[11], e[10], e[4]],
                [e[4], e[10], e[9], e[3]], [e[3], e[9], e[8], e[2]], [e[0], e[6], e[11], e[5]],
                [e[6], e[7], e[10], e[11]], [e[7], e[8], e[9], e[10]], [e[1], e[2], e[8], e[7]],
                [e[0], e[1], e[7], e[6]]]
                for e in elements_data])
        else:
            raise ValueError(element_type)
        if isinstance(face_ids, tuple):
            return face_ids
        else:
            return face_ids,
'''

HEX_LITERAL = '''            face_ids = method([[
                [e[0], e[1], e[5], e[4]],
                [e[0], e[3], e[2], e[1]],
                [e[1], e[2], e[6], e[5]],
                [e[2], e[3], e[7], e[6]],
                [e[3], e[0], e[4], e[7]],
                [e[4], e[5], e[6], e[7]]]
                for e in elements_data])
'''
FISTR_STORES = REFERENCE[REFERENCE.index('        surfs[0 * N:1 * N, :3]'):REFERENCE.index('        surfs[:, :3].sort')]
PYR_BASE = 'method([[[e[0], e[3], e[2], e[1]]] for e in elements_data])'
TAIL = '''        if isinstance(face_ids, tuple):
            return face_ids
        else:
            return face_ids,
'''


def _sub(src, old, new, count=1):
    assert old in src, old
    return src.replace(old, new, count)


def variants():
    """spellings with the same meaning"""
    r = REFERENCE
    yield 'module-level table + helper', _sub(_sub(r, HEX_LITERAL, '''            face_ids = method([
                _pick(e, _HEX) for e in elements_data])
'''), 'class GraphProcessorMixin:', '''_HEX = (
    (0, 1, 5, 4), (0, 3, 2, 1), (1, 2, 6, 5), (2, 3, 7, 6), (3, 0, 4, 7), (4, 5, 6, 7))


def _pick(element, table):
    """faces of one element"""
    return [[element[i] for i in face] for face in table]


class GraphProcessorMixin:''')
    yield 'class-level table, keyword arguments, generator', _sub(_sub(r, HEX_LITERAL, '''            face_ids = method(
                self._pick(table=self._HEX, element=row) for row in elements_data)
'''), 'class GraphProcessorMixin:\n', '''class GraphProcessorMixin:
    _HEX = [[0, 1, 5, 4], [0, 3, 2, 1], [1, 2, 6, 5], [2, 3, 7, 6], [3, 0, 4, 7], [4, 5, 6, 7]]

    @staticmethod
    def _pick(element, table):
        picked = [[element[i] for i in face] for face in table]
        return picked
''')
    yield 'fistr table in a loop', _sub(r, FISTR_STORES, '''        for k, face in enumerate(((0, 1, 2), (0, 1, 3), (1, 2, 3), (2, 0, 3))):
            rows = slice(k * N, (k + 1) * N)
            surfs[rows, :3] = data[:, list(face)]
            surfs[rows, 3] = self.elements.ids
            surfs[rows, 4] = k + 1
''')
    yield 'fistr loop, numbers from the table', _sub(r, FISTR_STORES, '''        for number, cols in [(1, [0, 1, 2]), (2, [0, 1, 3]), (3, [1, 2, 3]), (4, [2, 0, 3])]:
            surfs[(number - 1) * N:number * N, :3] = data[:, cols]
            surfs[(number - 1) * N:number * N, 4] = number
            surfs[(number - 1) * N:number * N, 3] = self.elements.ids
''')
    yield 'vectorised pyramid base', _sub(r, PYR_BASE, 'method(elements_data[:, [[0, 3, 2, 1]]])')
    yield 'tet2 delegation inline, guard-clause tail', _sub(_sub(r, '''            tet1_elements = elements_data[:, :4]
            face_ids = self._generate_all_faces(
                tet1_elements, 'tet', method=method)
''', '''            face_ids = self._generate_all_faces(
                elements_data[:, :4], element_type='tet', method=method)
'''), TAIL, '''        if not isinstance(face_ids, tuple):
            return (face_ids,)
        return face_ids
''')
    yield 'np.array wrapper, fancy row index', _sub(r, HEX_LITERAL, '''            face_ids = method([np.array([e[[0, 1, 5, 4]], e[[0, 3, 2, 1]], e[[1, 2, 6, 5]],
                                         e[[2, 3, 7, 6]], e[[3, 0, 4, 7]], e[[4, 5, 6, 7]]])
                               for e in elements_data])
''')
    yield 'rotated face (same oriented face) is a different TABLE but must translate', None


def mutants():
    """edits that change the meaning, or that the translator cannot know the meaning of"""
    r = REFERENCE
    yield 'hex face reversed', _sub(r, '[e[0], e[1], e[5], e[4]]', '[e[0], e[4], e[5], e[1]]')
    yield 'pyramid base not reversed (vectorised)', _sub(r, PYR_BASE, 'method(elements_data[:, [[0, 1, 2, 3]]])')
    yield 'constant table edited', _sub(_sub(r, HEX_LITERAL, '''            face_ids = method([[[e[i] for i in f] for f in _HEX] for e in elements_data])
'''), 'class GraphProcessorMixin:', '''_HEX = ((0, 1, 5, 4), (0, 3, 2, 1), (1, 2, 6, 5), (2, 3, 7, 6), (3, 0, 4, 7), (4, 5, 7, 6))


class GraphProcessorMixin:''')
    yield 'filtered comprehension', _sub(r, ''']]
                for e in elements_data])
        elif element_type == 'pyr':''', ''']]
                for e in elements_data if e[0] > 0])
        elif element_type == 'pyr':''')
    yield 'fistr face number off by one in the loop', _sub(r, FISTR_STORES, '''        for k, face in enumerate(((0, 1, 2), (0, 1, 3), (1, 2, 3), (2, 0, 3))):
            surfs[k * N:(k + 1) * N, :3] = data[:, list(face)]
            surfs[k * N:(k + 1) * N, 3] = self.elements.ids
            surfs[k * N:(k + 1) * N, 4] = k
''')
    yield 'fistr element number instead of id', _sub(r, FISTR_STORES, FISTR_STORES.replace(
        'surfs[2 * N:3 * N, 3] = self.elements.ids', 'surfs[2 * N:3 * N, 3] = np.arange(N) + 1'))
    yield 'fistr columns swapped between blocks', _sub(_sub(r, 'data[:, [0, 1, 3]]', 'data[:, [1, 2, 3]]'),
                                                       'surfs[2 * N:3 * N, :3] = data[:, [1, 2, 3]]',
                                                       'surfs[2 * N:3 * N, :3] = data[:, [0, 1, 3]]')
    yield 'table depends on data', _sub(r, '[e[0], e[3], e[2], e[1]],\n                [e[1], e[2], e[6], e[5]],',
                                        '[e[0], e[3], e[2], e[1]] if e[0] < e[1] else [e[1], e[2], e[3], e[0]],\n'
                                        '                [e[1], e[2], e[6], e[5]],')
    yield 'tail does not wrap', _sub(r, TAIL, '        return face_ids\n')
    yield 'helper with a side condition', _sub(_sub(r, HEX_LITERAL, '''            face_ids = method([_pick(e, _HEX) for e in elements_data])
'''), 'class GraphProcessorMixin:', '''_HEX = ((0, 1, 5, 4), (0, 3, 2, 1), (1, 2, 6, 5), (2, 3, 7, 6), (3, 0, 4, 7), (4, 5, 6, 7))


def _pick(element, table):
    if element[0] > element[1]:
        table = table[::-1]
    return [[element[i] for i in face] for face in table]


class GraphProcessorMixin:''')
    yield 'tet2 keeps five columns', _sub(r, 'elements_data[:, :4]', 'elements_data[:, :5]')
    yield 'tet2 delegates to hex', _sub(r, "tet1_elements, 'tet', method=method", "tet1_elements, 'hex', method=method")


def _translate_src(src):
    tree = ast.parse(src)
    lines = src.splitlines()
    interp = T.Interp(T.Module(tree, lines))
    gaf = T._find_method(tree, T.CLASS, '_generate_all_faces')
    fis = T._find_method(tree, T.CLASS, 'extract_surface_fistr')
    return {'tables': T.translate_generate_all_faces(gaf, interp), 'fistr': T.translate_fistr(fis, interp)}


def run():
    """-> (n_variants, n_mutants, problems)"""
    problems = []
    ref = _translate_src(REFERENCE)
    nv = nm = 0
    for name, src in variants():
        if src is None:
            continue
        nv += 1
        try:
            got = _translate_src(src)
        except (T.TranslateError, SyntaxError) as e:
            problems.append('variant %r not read: %s' % (name, e))
            continue
        if got != ref:
            problems.append('variant %r differs from the reference tables' % name)
    for name, src in mutants():
        nm += 1
        try:
            got = _translate_src(src)
        except (T.TranslateError, SyntaxError):
            continue
        if got == ref:
            problems.append('mutant %r accepted with unchanged tables' % name)
    return nv, nm, problems


if __name__ == '__main__':
    nv, nm, problems = run()
    print('%d variants, %d mutants, %d problems' % (nv, nm, len(problems)))
    for p in problems:
        print('  ', p)
    sys.exit(1 if problems else 0)
