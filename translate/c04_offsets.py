"""C04 translator for the READER's line / column arithmetic (round 5).

Reads, by symbolic evaluation of the source of the tree under test
(femio/formats/ucd/ucd.py: UCDData.read_headers, read_nodes, read_elements, read_nodal_data,
read_elemental_data, _read_associated_data), every line index and slice bound the reader computes
from the header counts, as an integer expression over

    N  = headers['n_node']               E  = headers['n_element']
    DN = headers['all_dim_nodal_data']   DE = headers['all_dim_elemental_data']
    ND = headers['n_nodal_data']         NE = headers['n_elemental_data']

and emits coq/C04/gen/UcdOffsets.v (definitions s_* over nat).  The per-run obligation
C04_reader_offsets (harness/c04.py) proves s_* = m_* (coq/C04/Offsets.v, the positions Model.read_*
read at, by reflexivity lemmas) for ALL counts, so the proved round trip is about the offsets the
source has now.  What is matched is the VALUE of each expression (named locals, helper methods,
dict.update vs key assignment, accumulate vs running counter, operand order do not matter).
Anything that cannot be evaluated raises TranslateError (the caller then falls back to the hand
model + correspondence: the tie of this region is H)."""
import ast
import hashlib
from pathlib import Path


class TranslateError(Exception):
    pass


SYMS = {'n_node': 'N', 'n_element': 'E', 'all_dim_nodal_data': 'DN', 'all_dim_elemental_data': 'DE',
        'n_nodal_data': 'ND', 'n_elemental_data': 'NE'}


def _strip_doc(body):
    if body and isinstance(body[0], ast.Expr) and isinstance(body[0].value, ast.Constant) \
            and isinstance(body[0].value.value, str):
        return body[1:]
    return body


class U(Exception):
    """expression outside the evaluated fragment"""


# values: ('int', n) | ('sym', S) | ('add', a, b) | ('mul', a, b) | ('min', a, b)
#         | ('phi', S, v_nonzero, v_zero)        value depending on S != 0
#         | ('series',)                          the StringSeries of all lines
#         | ('row', line_expr)                   ints of one line;  ('field', line_expr, i); ('rest', line_expr)
#         | ('dict', {key: value}) | ('tuple', [values]) | ('list', [values]) | ('other', text)
def is_int(v):
    return v[0] in ('int', 'sym', 'add', 'mul', 'min', 'phi', 'field') and (v[0] != 'phi' or (is_int(v[2]) and is_int(v[3])))


class Ev:
    def __init__(self, fns):
        self.fns = fns
        self.slices = []       # (lo, hi) of every string_series[lo:hi] / .iloc[lo:hi], in order
        self.picks = []        # line expressions of every string_series.iloc[[e]]
        self.cols = []         # to_fem_attribute(name, id_col, slice(lo, hi)) column arguments
        self.depth = 0

    def ev(self, e, env):
        if isinstance(e, ast.Constant):
            if isinstance(e.value, bool) or e.value is None:
                return ('other', repr(e.value))
            if isinstance(e.value, int):
                return ('int', e.value)
            return ('other', repr(e.value))
        if isinstance(e, ast.Name):
            if e.id in env:
                return env[e.id]
            raise U(f'name {e.id}')
        if isinstance(e, ast.BinOp) and isinstance(e.op, (ast.Add, ast.Mult)):
            a, b = self.ev(e.left, env), self.ev(e.right, env)
            if not (is_int(a) and is_int(b)):
                raise U(ast.unparse(e))
            return ('add' if isinstance(e.op, ast.Add) else 'mul', a, b)
        if isinstance(e, ast.Dict):
            d = {}
            for k, v in zip(e.keys, e.values):
                if not (isinstance(k, ast.Constant) and isinstance(k.value, str)):
                    raise U('dict key')
                d[k.value] = self.ev(v, env)
            return ('dict', d)
        if isinstance(e, ast.List):
            return ('list', [self.ev(x, env) for x in e.elts])
        if isinstance(e, ast.Tuple):
            return ('tuple', [self.ev(x, env) for x in e.elts])
        if isinstance(e, ast.Subscript):
            v = self.ev(e.value, env)
            sl = e.slice
            if v[0] == 'dict':
                if isinstance(sl, ast.Constant) and sl.value in v[1]:
                    return v[1][sl.value]
                raise U(f'key {ast.unparse(sl)}')
            if v[0] == 'row':
                if isinstance(sl, ast.Constant) and isinstance(sl.value, int):
                    if v[1] == ('int', 0) and 0 <= sl.value < 4:
                        return ('sym', ['N', 'E', 'DN', 'DE'][sl.value])    # the top header line
                    return ('field', v[1], sl.value)
                if isinstance(sl, ast.Slice) and sl.upper is None and sl.step is None \
                        and isinstance(sl.lower, ast.Constant) and sl.lower.value == 1:
                    return ('rest', v[1])
                raise U(ast.unparse(e))
            if v[0] in ('series', 'iloc'):
                if isinstance(sl, ast.Slice) and sl.step is None and sl.lower is not None and sl.upper is not None:
                    lo, hi = self.ev(sl.lower, env), self.ev(sl.upper, env)
                    if not (is_int(lo) and is_int(hi)):
                        raise U(ast.unparse(e))
                    self.slices.append((lo, hi))
                    return ('lines', lo, hi)
                if v[0] == 'iloc' and isinstance(sl, ast.List) and len(sl.elts) == 1:
                    ln = self.ev(sl.elts[0], env)
                    if not is_int(ln):
                        raise U(ast.unparse(e))
                    self.picks.append(ln)
                    return ('line', ln)
                raise U(ast.unparse(e))
            if v[0] == 'rowlist' and isinstance(sl, ast.Constant) and sl.value == 0:
                return ('row', v[1])
            if v[0] == 'tuple' and isinstance(sl, ast.Constant) and isinstance(sl.value, int):
                return v[1][sl.value]
            return ('other', ast.unparse(e))
        if isinstance(e, ast.Attribute):
            v = self.ev(e.value, env)
            if v[0] == 'series' and e.attr == 'iloc':
                return ('iloc',)
            return ('other', ast.unparse(e))
        if isinstance(e, ast.Call):
            f = e.func
            if isinstance(f, ast.Name) and f.id == 'min' and len(e.args) == 2 and not e.keywords:
                a, b = self.ev(e.args[0], env), self.ev(e.args[1], env)
                if is_int(a) and is_int(b):
                    return ('min', a, b)
                raise U(ast.unparse(e))
            if isinstance(f, ast.Name) and f.id == 'slice':
                return ('slice', [self.ev(a, env) for a in e.args])
            if isinstance(f, ast.Attribute) and isinstance(f.value, ast.Name) and f.value.id == 'self' \
                    and f.attr in self.fns and self.depth < 3:
                return self.call(self.fns[f.attr], e, env)
            if isinstance(f, ast.Attribute):
                recv = self.ev(f.value, env)
                if recv[0] == 'line' and f.attr == 'to_values':
                    kw = {k.arg: ast.unparse(k.value) for k in e.keywords}
                    if len(e.args) == 1 and isinstance(e.args[0], ast.Constant) and e.args[0].value == r'\s+' \
                            and kw == {'data_type': 'int'}:
                        return ('rowlist', recv[1])
                    raise U(ast.unparse(e))
                if recv[0] in ('lines', 'series', 'param_lines') and f.attr == 'to_fem_attribute':
                    args = [self.ev(a, env) for a in e.args]
                    self.cols.append((recv, args, {k.arg: ast.unparse(k.value) for k in e.keywords}))
                    return ('other', 'attribute')
                if recv[0] in ('lines',) and f.attr in ('split_vertical', 'split_vertical_all'):
                    return ('other', ast.unparse(e))
                if recv[0] == 'dict' and f.attr == 'update':
                    raise U('update in expression position')
                # evaluate the arguments anyway: slices of the series inside them are recorded
                for a in list(e.args) + [k.value for k in e.keywords]:
                    try:
                        self.ev(a, env)
                    except U:
                        pass
                return ('other', ast.unparse(e))
            for a in list(e.args) + [k.value for k in e.keywords]:
                try:
                    self.ev(a, env)
                except U:
                    pass
            return ('other', ast.unparse(e))
        if isinstance(e, (ast.DictComp, ast.ListComp, ast.GeneratorExp, ast.Compare, ast.JoinedStr, ast.BoolOp,
                          ast.UnaryOp, ast.IfExp, ast.Starred)):
            return ('other', ast.unparse(e))
        raise U(ast.unparse(e))

    def call(self, fn, call, env):
        params = [a.arg for a in fn.args.args][1:]
        if fn.args.vararg or fn.args.kwarg or len(call.args) > len(params):
            raise U('call shape')
        b = {}
        for p, a in zip(params, call.args):
            b[p] = self.ev(a, env)
        for k in call.keywords:
            if k.arg not in params or k.arg in b:
                raise U('call keywords')
            b[k.arg] = self.ev(k.value, env)
        if set(b) != set(params):
            raise U('call arity')
        self.depth += 1
        try:
            r = self.run(_strip_doc(fn.body), b)
        finally:
            self.depth -= 1
        return r if r is not None else ('other', 'None')

    # statements: returns the returned value (or None)
    def assign(self, t, v, env):
        if isinstance(t, ast.Name):
            env[t.id] = v
        elif isinstance(t, ast.Subscript) and isinstance(t.value, ast.Name) \
                and env.get(t.value.id, ('',))[0] == 'dict' and isinstance(t.slice, ast.Constant):
            d = dict(env[t.value.id][1])
            d[t.slice.value] = v
            env[t.value.id] = ('dict', d)
        elif isinstance(t, ast.Tuple):
            if v[0] == 'tuple' and len(v[1]) == len(t.elts):
                for x, y in zip(t.elts, v[1]):
                    self.assign(x, y, env)
            else:
                for x in t.elts:
                    self.assign(x, ('other', 'unpacked'), env)
        else:
            raise U(f'assignment target {ast.unparse(t)}')

    def cond_sym(self, test, env):
        """test `<sym> != 0` / `<sym> == 0` / `<sym> > 0` -> (S, nonzero_is_body)"""
        if isinstance(test, ast.Compare) and len(test.ops) == 1 and isinstance(test.comparators[0], ast.Constant) \
                and test.comparators[0].value == 0:
            v = self.ev(test.left, env)
            if v[0] == 'sym':
                if isinstance(test.ops[0], (ast.NotEq, ast.Gt)):
                    return v[1], True
                if isinstance(test.ops[0], ast.Eq):
                    return v[1], False
        raise U(f'condition {ast.unparse(test)}')

    def run(self, body, env):
        for i, st in enumerate(body):
            if isinstance(st, ast.Return):
                return self.ev(st.value, env) if st.value is not None else ('other', 'None')
            if isinstance(st, ast.Assign) and len(st.targets) == 1:
                self.assign(st.targets[0], self.ev(st.value, env), env)
            elif isinstance(st, ast.AugAssign) and isinstance(st.op, ast.Add) and isinstance(st.target, ast.Name):
                a, b = env.get(st.target.id), self.ev(st.value, env)
                if a is None or not (is_int(a) and is_int(b)):
                    raise U(ast.unparse(st))
                env[st.target.id] = ('add', a, b)
            elif isinstance(st, ast.Expr):
                c = st.value
                if isinstance(c, ast.Call) and isinstance(c.func, ast.Attribute) and c.func.attr == 'update' \
                        and isinstance(c.func.value, ast.Name) and env.get(c.func.value.id, ('',))[0] == 'dict' \
                        and len(c.args) == 1 and not c.keywords:
                    v = self.ev(c.args[0], env)
                    if v[0] != 'dict':
                        raise U(ast.unparse(st))
                    d = dict(env[c.func.value.id][1])
                    d.update(v[1])
                    env[c.func.value.id] = ('dict', d)
                else:
                    self.ev(c, env)
            elif isinstance(st, ast.If):
                try:
                    s, body_is_nonzero = self.cond_sym(st.test, env)
                except U:
                    # a decision that is not about a header count (e.g. one element type or several):
                    # both branches are evaluated, every range they read is recorded
                    e_a, e_b = dict(env), dict(env)
                    r_a, r_b = self.run(st.body, e_a), self.run(st.orelse, e_b)
                    if r_a is not None and r_b is not None:
                        return ('other', 'either branch')
                    if r_a is not None or r_b is not None:
                        e_keep = e_b if r_a is not None else e_a
                        env.clear()
                        env.update(e_keep)
                        continue
                    for k in set(e_a) | set(e_b):
                        env[k] = e_a[k] if e_a.get(k) == e_b.get(k) else ('other', 'merged')
                    continue
                nz, z = (st.body, st.orelse) if body_is_nonzero else (st.orelse, st.body)
                e_nz, e_z = dict(env), dict(env)
                n0 = (len(self.slices), len(self.picks), len(self.cols))
                r_z = self.run(z, e_z)
                # what the zero branch reads is not part of the arithmetic that is compared
                del self.slices[n0[0]:], self.picks[n0[1]:], self.cols[n0[2]:]
                r_nz = self.run(nz, e_nz)
                if r_nz is not None and r_z is not None:
                    return ('phi', s, r_nz, r_z)
                if r_z is not None:          # guard clause: `if S == 0: return ...`
                    env.clear()
                    env.update(e_nz)
                    continue
                if r_nz is not None:
                    raise U('return only in the non-zero branch')
                for k in set(e_nz) | set(e_z):
                    a, b = e_nz.get(k), e_z.get(k)
                    if a == b:
                        env[k] = a
                    elif a is not None and b is not None:
                        env[k] = self.merge(s, a, b)
                    else:
                        env.pop(k, None)
            elif isinstance(st, ast.For):
                # loops do not compute line offsets in the evaluated functions; ranges read in the
                # iterable are recorded, the loop variables are opaque
                self.ev(st.iter, env)
                for n in ast.walk(st.target):
                    if isinstance(n, ast.Name):
                        env[n.id] = ('other', 'loop variable')
                changed = {t.id for x in ast.walk(st) if isinstance(x, (ast.Assign, ast.AugAssign))
                           for t in ast.walk(x.targets[0] if isinstance(x, ast.Assign) else x.target)
                           if isinstance(t, ast.Name)}
                for k in changed:
                    env[k] = ('other', 'assigned in a loop')
                for x in st.body:
                    if isinstance(x, ast.Expr):
                        try:
                            self.ev(x.value, env)
                        except U:
                            pass
            elif isinstance(st, (ast.Pass,)):
                pass
            else:
                raise U(f'statement {type(st).__name__}')
        return None

    def merge(self, s, a, b):
        if a[0] == 'dict' and b[0] == 'dict' and list(a[1]) == list(b[1]):
            return ('dict', {k: (a[1][k] if a[1][k] == b[1][k] else ('phi', s, a[1][k], b[1][k])) for k in a[1]})
        if a[0] == 'dict' and b[0] == 'dict':
            raise U('the two branches build different header keys (or in a different order)')
        return ('phi', s, a, b)



def _norm(v):
    """integer expression -> Coq term over nat (N E DN DE ND NE in scope)"""
    k = v[0]
    if k == 'int':
        if v[1] < 0:
            raise TranslateError('negative constant in an offset')
        return str(v[1])
    if k == 'sym':
        return v[1]
    if k == 'add':
        return f'({_norm(v[1])} + {_norm(v[2])})'
    if k == 'mul':
        return f'({_norm(v[1])} * {_norm(v[2])})'
    if k == 'min':
        return f'(Nat.min {_norm(v[1])} {_norm(v[2])})'
    if k == 'phi':
        return f'(if Nat.eqb {v[1]} 0 then {_norm(v[3])} else {_norm(v[2])})'
    raise TranslateError(f'not an integer expression: {v}')


def _py(v):
    """integer expression -> Python expression (same variables)"""
    k = v[0]
    if k == 'int':
        return str(v[1])
    if k == 'sym':
        return v[1]
    if k in ('add', 'mul'):
        return f"({_py(v[1])} {'+' if k == 'add' else '*'} {_py(v[2])})"
    if k == 'min':
        return f'min({_py(v[1])}, {_py(v[2])})'
    if k == 'phi':
        return f'({_py(v[3])} if {v[1]} == 0 else {_py(v[2])})'
    raise TranslateError(f'not an integer expression: {v}')


class _Both(str):
    """Coq text of an expression, with the Python text as attribute .py"""


def _norm2(v):
    r = _Both(_norm(v))
    r.py = _py(v)
    return r


def _subst(v, m):
    """replace ('field', line, 0) header reads by the symbols they define"""
    if isinstance(v, tuple):
        for a, b in m:
            if v == a:
                return b
        return tuple(_subst(x, m) for x in v)
    if isinstance(v, list):
        return [_subst(x, m) for x in v]
    if isinstance(v, dict):
        return {k: _subst(x, m) for k, x in v.items()}
    return v


def _assoc_first_column(fn):
    """_read_associated_data: the first data column of variable i is c0 + sum(dims[:i]) and its last
    c0 + sum(dims[:i+1]).  Accepted forms: a running counter (c = c0; for ... in zip(names, units,
    dims): ... slice(c, c + dim) ...; c += dim) or itertools.accumulate(dims, initial=c0) zipped in.
    Returns c0."""
    body = _strip_doc(fn.body)
    params = [a.arg for a in fn.args.args]
    if len(params) != 5:
        raise TranslateError('_read_associated_data: unexpected parameters')
    dims = params[4]
    loops = [s for s in body if isinstance(s, ast.For)]
    if len(loops) != 1:
        raise TranslateError('_read_associated_data: expected one loop')
    lp = loops[0]
    it = lp.iter
    if not (isinstance(it, ast.Call) and isinstance(it.func, ast.Name) and it.func.id == 'zip'):
        raise TranslateError('_read_associated_data: loop is not over zip(...)')
    if not isinstance(lp.target, ast.Tuple) or len(lp.target.elts) != len(it.args):
        raise TranslateError('_read_associated_data: loop target')
    names = {ast.unparse(a): t.id for a, t in zip(it.args, lp.target.elts) if isinstance(t, ast.Name)}
    if dims not in names:
        raise TranslateError('_read_associated_data: dims is not zipped')
    dim = names[dims]
    # the slice(lo, hi) handed to to_fem_attribute
    sl = [n for n in ast.walk(lp) if isinstance(n, ast.Call) and isinstance(n.func, ast.Name)
          and n.func.id == 'slice' and len(n.args) == 2]
    if len(sl) != 1:
        raise TranslateError('_read_associated_data: expected one slice(lo, hi)')
    lo, hi = sl[0].args
    if not isinstance(lo, ast.Name):
        raise TranslateError('_read_associated_data: slice start is not a name')
    c = lo.id
    if ast.unparse(hi) not in (f'{c} + {dim}', f'{dim} + {c}'):
        raise TranslateError('_read_associated_data: slice end is not start + dim')
    # the id column
    calls = [n for n in ast.walk(lp) if isinstance(n, ast.Call) and isinstance(n.func, ast.Attribute)
             and n.func.attr == 'to_fem_attribute']
    if len(calls) != 1 or len(calls[0].args) < 3 or not (
            isinstance(calls[0].args[1], ast.Constant) and calls[0].args[1].value == 0):
        raise TranslateError('_read_associated_data: id column is not 0')
    # form 1: running counter
    pre = [s for s in body if isinstance(s, ast.Assign) and len(s.targets) == 1
           and isinstance(s.targets[0], ast.Name)]
    env = {s.targets[0].id: s.value for s in pre}
    aug = [s for s in lp.body if isinstance(s, ast.AugAssign)]
    if c in env and isinstance(env[c], ast.Constant) and isinstance(env[c].value, int) and c not in names.values():
        if len(aug) == 1 and isinstance(aug[0].op, ast.Add) and ast.unparse(aug[0].target) == c \
                and ast.unparse(aug[0].value) == dim and lp.body[-1] is aug[0] \
                and not any(isinstance(s, ast.Assign) and any(ast.unparse(t) == c for t in s.targets)
                            for s in lp.body):
            return env[c].value
        raise TranslateError('_read_associated_data: the column counter is not advanced by dim at the end of the body')
    # form 2: accumulate(dims, initial=c0) zipped in (zip stops at the shortest: one longer than dims)
    for a, t in zip(it.args, lp.target.elts):
        if isinstance(t, ast.Name) and t.id == c:
            src = a
            if isinstance(src, ast.Name) and src.id in env:
                src = env[src.id]
            if isinstance(src, ast.Call) and ast.unparse(src.func) in ('itertools.accumulate', 'accumulate') \
                    and len(src.args) == 1 and ast.unparse(src.args[0]) == dims \
                    and [k.arg for k in src.keywords] == ['initial'] \
                    and isinstance(src.keywords[0].value, ast.Constant) \
                    and isinstance(src.keywords[0].value.value, int) and not aug:
                return src.keywords[0].value.value
    raise TranslateError('_read_associated_data: unrecognised column arithmetic')


def translate(repo):
    p = Path(repo) / 'femio' / 'formats' / 'ucd' / 'ucd.py'
    text = p.read_text()
    tree = ast.parse(text)
    cls = [c for c in tree.body if isinstance(c, ast.ClassDef) and c.name == 'UCDData']
    if len(cls) != 1:
        raise TranslateError('class UCDData not found')
    fns = {f.name: f for f in cls[0].body if isinstance(f, ast.FunctionDef)}
    need = ['read_headers', 'read_nodes', 'read_elements', 'read_nodal_data', 'read_elemental_data',
            '_read_associated_data']
    for n in need:
        if n not in fns:
            raise TranslateError(f'UCDData.{n} not found')
    out = {}
    try:
        # ---- read_headers
        ev = Ev(fns)
        h = ev.run(_strip_doc(fns['read_headers'].body), {'string_series': ('series',), 'self': ('other', 'self')})
        if h is None or h[0] != 'dict':
            raise TranslateError('read_headers does not return a dict built from the header lines')
        d = h[1]
        for k in ('n_node', 'n_element', 'all_dim_nodal_data', 'all_dim_elemental_data'):
            if d.get(k) != ('sym', SYMS[k]):
                raise TranslateError(f"headers[{k!r}] is not field {list(SYMS).index(k)} of line 0")
        ndv = d.get('n_nodal_data')
        if not (ndv and ndv[0] == 'phi' and ndv[1] == 'DN' and ndv[2][0] == 'field' and ndv[2][2] == 0
                and ndv[3] == ('int', 0)):
            raise TranslateError(f"headers['n_nodal_data'] is not (first int of a line if DN != 0 else 0): {ndv}")
        l1 = ndv[2][1]
        if d.get('nodal_data_dims') != ('phi', 'DN', ('rest', l1), ('list', [('int', 0)])):
            raise TranslateError("headers['nodal_data_dims'] is not (rest of that line if DN != 0 else [0])")
        # inside later expressions the value of headers['n_nodal_data'] is the symbol ND guarded by DN
        m2 = [(ndv, ('phi', 'DN', ('sym', 'ND'), ('int', 0)))]
        d = _subst(d, m2)
        nev = d.get('n_elemental_data')
        if not (nev and nev[0] == 'phi' and nev[1] == 'DE' and nev[2][0] == 'field' and nev[2][2] == 0
                and nev[3] == ('int', 0)):
            raise TranslateError(f"headers['n_elemental_data'] is not (first int of a line if DE != 0 else 0): {nev}")
        l2 = nev[2][1]
        if d.get('elemental_data_dims') != ('phi', 'DE', ('rest', l2), ('list', [('int', 0)])):
            raise TranslateError("headers['elemental_data_dims'] is not (rest of that line if DE != 0 else [0])")
        if set(d) != {'n_node', 'n_element', 'all_dim_nodal_data', 'all_dim_elemental_data', 'n_nodal_data',
                      'nodal_data_dims', 'n_elemental_data', 'elemental_data_dims'}:
            raise TranslateError(f'unexpected header keys {sorted(d)}')
        out['nodal_header_line'] = _norm2(l1)
        out['elemental_header_line'] = _norm2(l2)
        # ---- the other readers: headers is the dict of symbols
        hd = ('dict', {k: ('sym', s) for k, s in SYMS.items()})
        hd[1]['nodal_data_dims'] = ('other', 'dims')
        hd[1]['elemental_data_dims'] = ('other', 'dims')

        def run(name):
            e2 = Ev({k: v for k, v in fns.items() if k not in ('_read_associated_data',)})
            e2.run(_strip_doc(fns[name].body), {'string_series': ('series',), 'headers': hd,
                                                'self': ('other', 'self')})
            return e2

        def col_args(rec, what):
            recv, args, kw = rec
            if len(args) < 3 or args[1] != ('int', 0):
                raise TranslateError(f'{what}: id column is not 0')
            sl = args[2]
            if sl[0] != 'slice' or len(sl[1]) != 2 or sl[1][0][0] != 'int' or sl[1][1] != ('other', 'None'):
                raise TranslateError(f'{what}: data columns are not slice(<int>, None)')
            return sl[1][0][1]

        e = run('read_nodes')
        if len(set(e.slices)) != 1 or len(e.cols) != 1:
            raise TranslateError('read_nodes: expected one line range and one to_fem_attribute')
        out['nodes_lo'], out['nodes_hi'] = map(_norm2, e.slices[0])
        out['node_first_col'] = str(col_args(e.cols[0], 'read_nodes'))
        e = run('read_elements')
        if len(set(e.slices)) != 1 or not e.cols:
            raise TranslateError('read_elements: expected one line range')
        out['elems_lo'], out['elems_hi'] = map(_norm2, e.slices[0])
        firsts = {col_args(c, 'read_elements') for c in e.cols}
        # the comprehension over the per-type strings is not entered by the evaluator: find the
        # remaining to_fem_attribute calls syntactically
        for n in ast.walk(fns['read_elements']):
            if isinstance(n, ast.Call) and isinstance(n.func, ast.Attribute) and n.func.attr == 'to_fem_attribute':
                if len(n.args) < 3 or ast.unparse(n.args[1]) != '0':
                    raise TranslateError('read_elements: id column is not 0')
                a = n.args[2]
                if not (isinstance(a, ast.Call) and ast.unparse(a.func) == 'slice' and len(a.args) == 2
                        and isinstance(a.args[0], ast.Constant) and isinstance(a.args[0].value, int)
                        and ast.unparse(a.args[1]) == 'None'):
                    raise TranslateError('read_elements: connectivity columns are not slice(<int>, None)')
                firsts.add(a.args[0].value)
        if len(firsts) != 1:
            raise TranslateError(f'read_elements: different first connectivity columns {sorted(firsts)}')
        out['elem_first_col'] = str(firsts.pop())
        tcols = [n for n in ast.walk(fns['read_elements'])
                 if isinstance(n, ast.Subscript) and isinstance(n.value, ast.Call)
                 and isinstance(n.value.func, ast.Attribute) and n.value.func.attr == 'split_vertical_all']
        if len(tcols) != 1 or not (isinstance(tcols[0].slice, ast.Constant) and isinstance(tcols[0].slice.value, int)):
            raise TranslateError('read_elements: type column not found (split_vertical_all(...)[<int>])')
        out['elem_type_col'] = str(tcols[0].slice.value)
        for name, pre in (('read_nodal_data', 'n'), ('read_elemental_data', 'e')):
            e = run(name)
            if len(e.slices) != 2:
                raise TranslateError(f'{name}: expected two line ranges (names, rows), found {len(e.slices)}')
            out[pre + 'names_lo'], out[pre + 'names_hi'] = map(_norm2, e.slices[0])
            out[pre + 'rows_lo'], out[pre + 'rows_hi'] = map(_norm2, e.slices[1])
    except U as ex:
        raise TranslateError(f'cannot evaluate: {ex}')
    out['data_first_col'] = str(_assoc_first_column(fns['_read_associated_data']))
    used = ''.join(ast.get_source_segment(text, fns[n]) for n in sorted(fns)
                   if n in need or n.startswith('_read'))
    return out, hashlib.sha256(used.encode()).hexdigest()


ORDER = ['nodal_header_line', 'elemental_header_line', 'nodes_lo', 'nodes_hi', 'elems_lo', 'elems_hi',
         'nnames_lo', 'nnames_hi', 'nrows_lo', 'nrows_hi', 'enames_lo', 'enames_hi', 'erows_lo', 'erows_hi',
         'node_first_col', 'elem_type_col', 'elem_first_col', 'data_first_col']


# the model's positions (coq/C04/Offsets.v, m_*) as Python expressions: used ONLY to classify a failed
# obligation C04_reader_offsets (is there a difference on header counts a written file can have?)
MODEL_PY = {
    'nodal_header_line': 'N + E + 1', 'elemental_header_line': 'N + E + 1 + ND + min(1, ND) * (N + 1)',
    'nodes_lo': '1', 'nodes_hi': 'N + 1', 'elems_lo': 'N + 1', 'elems_hi': 'N + 1 + E',
    'nnames_lo': 'N + 1 + E + 1', 'nnames_hi': 'N + 1 + E + 1 + ND', 'nrows_lo': 'N + 1 + E + 1 + ND',
    'nrows_hi': 'N + 1 + E + 1 + ND + N',
    'enames_lo': 'N + 1 + E + 1 + min(1, DN) * (ND + N + 1)',
    'enames_hi': 'N + 1 + E + 1 + min(1, DN) * (ND + N + 1) + NE',
    'erows_lo': 'N + 1 + E + 1 + min(1, DN) * (ND + N + 1) + NE',
    'erows_hi': 'N + 1 + E + 1 + min(1, DN) * (ND + N + 1) + NE + E',
    'node_first_col': '1', 'elem_type_col': '2', 'elem_first_col': '3', 'data_first_col': '1'}


def differences(out, bound=4):
    """small header counts on which a translated quantity differs from the model's; each entry
    (quantity, counts, writer_reachable).  Counts the reader can see: DN = 0 -> ND = 0, DE = 0 -> NE = 0;
    counts a written file can have: moreover ND <= DN, NE <= DE, ND = 0 -> DN = 0, NE = 0 -> DE = 0."""
    import itertools
    res = []
    for k in ORDER:
        src = getattr(out[k], 'py', str(out[k]))
        for N, E, DN, DE, ND, NE in itertools.product(range(bound), repeat=6):
            if (DN == 0 and ND) or (DE == 0 and NE):
                continue
            # the quantities of a section are only used when the section exists
            if k.startswith(('nnames', 'nrows', 'nodal_header')) and DN == 0:
                continue
            if k.startswith(('enames', 'erows', 'elemental_header')) and DE == 0:
                continue
            env = dict(N=N, E=E, DN=DN, DE=DE, ND=ND, NE=NE, min=min)
            if eval(src, {'__builtins__': {}}, env) != eval(MODEL_PY[k], {'__builtins__': {}}, env):
                reach = ND <= DN and NE <= DE and (ND > 0 or DN == 0) and (NE > 0 or DE == 0)
                res.append((k, dict(N=N, E=E, DN=DN, DE=DE, ND=ND, NE=NE), reach))
    return res


def emit(out):
    lines = ['(* generated by translate/c04_offsets.py from femio/formats/ucd/ucd.py of the tree under test;',
             '   do not edit.  N E: node / element count, DN DE: total nodal / elemental width,',
             '   ND NE: number of nodal / elemental variables (the values of the `headers` dict) *)',
             'From Coq Require Import Arith.']
    for k in ORDER:
        lines.append(f'Definition s_{k} (N E DN DE ND NE : nat) : nat := {out[k]}.')
    return '\n'.join(lines) + '\n'


if __name__ == '__main__':
    import sys
    o, s = translate(sys.argv[1] if len(sys.argv) > 1 else '/repo')
    print(emit(o))
