"""C08 — read from femio's source, fail-closed, the five places where
FEMAttribute / FEMAttributes decide whether a second representation of the
table is refreshed.  Result: the record `cfg` of coq/C08/Model.v, emitted as
coq/C08/gen/AttrCfg.v.  Each site must match one of the listed statement
forms exactly (compared as `ast.dump`); anything else raises TranslateError.

Everything else of C08's model is a hand model tied by the correspondence
check; this translator only keeps the theorem `cfg_ok cfg = true -> inv_step
for every operation` attached to the tree under test.
"""
import ast
import hashlib
from pathlib import Path


class TranslateError(Exception):
    pass


def _d(src):
    """ast.dump of a statement list given as source"""
    return [ast.dump(s) for s in ast.parse(src).body]


def _find_class(tree, name):
    for n in tree.body:
        if isinstance(n, ast.ClassDef) and n.name == name:
            return n
    raise TranslateError(f'class {name} not found')


def _find_funcs(cls, name):
    return [n for n in cls.body if isinstance(n, ast.FunctionDef) and n.name == name]


def _body(fn):
    """statements without the docstring and without a trailing bare return"""
    b = list(fn.body)
    if b and isinstance(b[0], ast.Expr) and isinstance(getattr(b[0], 'value', None), ast.Constant) \
            and isinstance(b[0].value.value, str):
        b = b[1:]
    if b and isinstance(b[-1], ast.Return) and b[-1].value is None:
        b = b[:-1]
    return b


def _region(src, node):
    seg = ast.get_source_segment(src, node)
    return hashlib.sha256(seg.encode()).hexdigest()


ID2INDEX_INLINE = _d(
    'if self.generate_id2index:\n'
    '    self.id2index = pd.DataFrame(np.arange(len(self.ids)), index=self.ids)\n')
ID2INDEX_CALL = _d('self._update_id2index()\n')


def _is_id2index_refresh(stmt, cls):
    d = ast.dump(stmt)
    if d == ID2INDEX_INLINE[0]:
        return True
    if d == ID2INDEX_CALL[0]:
        fns = _find_funcs(cls, '_update_id2index')
        if len(fns) != 1:
            raise TranslateError('_update_id2index called but not defined exactly once')
        b = [ast.dump(s) for s in _body(fns[0])]
        if b != ID2INDEX_INLINE:
            raise TranslateError('_update_id2index has an unexpected body')
        return True
    return False


def translate(repo):
    repo = Path(repo)
    consumed = {}
    f_attr = repo / 'femio' / 'fem_attribute.py'
    f_attrs = repo / 'femio' / 'fem_attributes.py'
    src_a = f_attr.read_text()
    src_s = f_attrs.read_text()
    tree_a = ast.parse(src_a)
    tree_s = ast.parse(src_s)
    A = _find_class(tree_a, 'FEMAttribute')
    I = _find_class(tree_a, '_Indexer')
    S = _find_class(tree_s, 'FEMAttributes')
    cfg = {}

    # 1. _update_parent
    fns = _find_funcs(A, '_update_parent')
    if len(fns) != 1:
        raise TranslateError('_update_parent not found exactly once')
    consumed['fem_attribute.py:FEMAttribute._update_parent'] = _region(src_a, fns[0])
    b = [ast.dump(s) for s in _body(fns[0])]
    head = _d('if self.parent is None:\n    return\n'
              'self.parent._data_frame.loc[self._data_frame.index] = self._data_frame\n')
    refresh = _d('self.parent._data = self.parent._data_frame.values\n')
    if b == head:
        cfg['parent_refreshes_data'] = False
    elif b == head + refresh:
        cfg['parent_refreshes_data'] = True
    else:
        raise TranslateError('_update_parent: unrecognised body')

    # 2. FEMAttributes.overwrite, branch `ids is None`
    fns = _find_funcs(S, 'overwrite')
    if len(fns) != 1:
        raise TranslateError('FEMAttributes.overwrite not found exactly once')
    consumed['fem_attributes.py:FEMAttributes.overwrite'] = _region(src_s, fns[0])
    b = _body(fns[0])
    exp_head = _d('if name not in self:\n    raise ValueError(f"{name} not in the data {self.keys()}")\n')
    exp_tail = _d('if name in config.LIST_MATERIALS:\n    self.material_overwritten = True\n')
    if len(b) != 3 or ast.dump(b[0]) != exp_head[0] or ast.dump(b[2]) != exp_tail[0] \
            or not isinstance(b[1], ast.If):
        raise TranslateError('overwrite: unrecognised structure')
    br = b[1]
    if ast.dump(br.test) != ast.dump(ast.parse('ids is None').body[0].value):
        raise TranslateError('overwrite: unrecognised test')
    if [ast.dump(s) for s in br.orelse] != _d(
            'fem_attribute = FEMAttribute(name, ids=ids, data=data)\nself[name] = fem_attribute\n'):
        raise TranslateError('overwrite: unrecognised ids branch')
    then = [ast.dump(s) for s in br.body]
    if then == _d('self[name]._data = data\n'):
        cfg['overwrite_uses_setter'] = False
    elif then == _d('self[name].data = data\n'):
        cfg['overwrite_uses_setter'] = True
    else:
        raise TranslateError('overwrite: unrecognised `ids is None` branch')

    # 3. data_frame setter, 4. ids setter
    def setter(name):
        for fn in _find_funcs(A, name):
            for dec in fn.decorator_list:
                if isinstance(dec, ast.Attribute) and dec.attr == 'setter':
                    return fn
        raise TranslateError(f'{name} setter not found')

    fn = setter('data_frame')
    consumed['fem_attribute.py:FEMAttribute.data_frame.setter'] = _region(src_a, fn)
    b = _body(fn)
    exp_if = _d(
        'if isinstance(new_data_frame, pd.DataFrame):\n'
        '    self._data_frame = new_data_frame\n'
        '    self._data = new_data_frame.values\n'
        'elif isinstance(new_data_frame, (list, tuple)):\n'
        '    self._data_frame = new_data_frame\n'
        '    self._data = np.array([d.values for d in new_data_frame])\n'
        'else:\n'
        '    raise ValueError(f"Unsupported new_data_frame type for: {new_data_frame}")\n')
    upd_parent = _d('self._update_parent()\n')
    if not b or ast.dump(b[0]) != exp_if[0] or ast.dump(b[-1]) != upd_parent[0]:
        raise TranslateError('data_frame setter: unrecognised body')
    mid = b[1:-1]
    if not mid:
        cfg['frame_setter_refreshes_id2index'] = False
    elif len(mid) == 1 and _is_id2index_refresh(mid[0], A):
        cfg['frame_setter_refreshes_id2index'] = True
    else:
        raise TranslateError('data_frame setter: unrecognised statement')

    fn = setter('ids')
    consumed['fem_attribute.py:FEMAttribute.ids.setter'] = _region(src_a, fn)
    b = _body(fn)
    if not b or ast.dump(b[0]) != _d('self._data_frame.index = value\n')[0]:
        raise TranslateError('ids setter: unrecognised body')
    if len(b) == 1:
        cfg['ids_setter_refreshes_id2index'] = False
    elif len(b) == 2 and _is_id2index_refresh(b[1], A):
        cfg['ids_setter_refreshes_id2index'] = True
    else:
        raise TranslateError('ids setter: unrecognised statement')

    # 5. _Indexer.__getitem__, scalar-key branch
    fns = _find_funcs(I, '__getitem__')
    if len(fns) != 1:
        raise TranslateError('_Indexer.__getitem__ not found')
    consumed['fem_attribute.py:_Indexer.__getitem__'] = _region(src_a, fns[0])
    b = _body(fns[0])
    if len(b) < 2 or ast.dump(b[0]) != _d('sliced_df = self.indexer[key]\n')[0] \
            or not isinstance(b[1], ast.If) \
            or ast.dump(b[1].test) != ast.dump(ast.parse('sliced_df.ndim == 1').body[0].value):
        raise TranslateError('_Indexer.__getitem__: unrecognised head')
    scal = [ast.dump(s) for s in b[1].body]
    if scal == _d('new_length = 1\nids = [key]\n'):
        cfg['scalar_key_uses_label'] = False
    elif scal == _d('new_length = 1\n'
                    'if self.original_fem_attribute.time_series:\n'
                    '    ids = [sliced_df[0].name]\n'
                    'else:\n'
                    '    ids = [sliced_df.name]\n'):
        cfg['scalar_key_uses_label'] = True
    else:
        raise TranslateError('_Indexer.__getitem__: unrecognised scalar-key branch')
    # 6. the id-keyed filters the model represents by select_ids / cfilter / cextract: exact bodies
    exact = [
        (A, src_a, 'fem_attribute.py', 'filter_with_ids',
         'return FEMAttribute(self.name, ids, self._data_frame.loc[ids].values, silent=True, '
         'time_series=self.time_series)\n'),
        (S, src_s, 'fem_attributes.py', 'filter_with_ids',
         'return FEMAttributes({key: value.filter_with_ids(ids) for key, value in self.items()}, '
         'is_elemental=self.is_elemental)\n'),
        (S, src_s, 'fem_attributes.py', 'extract_dict',
         'return {k: v.loc[ids].values for k, v in self.items()}\n'),
    ]
    for cls, src, fname, fn, expected in exact:
        fns = _find_funcs(cls, fn)
        if len(fns) != 1:
            raise TranslateError(f'{fname}: {fn} not found exactly once')
        consumed[f'{fname}:{cls.name}.{fn}'] = _region(src, fns[0])
        body = [s for s in fns[0].body if not (isinstance(s, ast.Expr) and isinstance(
            getattr(s, 'value', None), ast.Constant) and isinstance(s.value.value, str))]
        if [ast.dump(s) for s in body] != _d(expected):
            raise TranslateError(f'{fname}: {cls.name}.{fn}: body is not the id-keyed selection the '
                                 'model represents')
    # the list-key branch and the construction of the slice are part of the
    # hand model; their text is hashed so that an edit is visible in the evidence
    return cfg, consumed


FIELDS = ['parent_refreshes_data', 'overwrite_uses_setter', 'frame_setter_refreshes_id2index',
          'ids_setter_refreshes_id2index', 'scalar_key_uses_label']


def emit(cfg):
    b = lambda x: 'true' if x else 'false'
    fields = ';\n     '.join(f'{k} := {b(cfg[k])}' for k in FIELDS)
    return ('(* generated by translate/c08_cfg.py from the tree under test - do not edit *)\n'
            'From FV.C08 Require Import Model.\n'
            f'Definition cfg : Model.cfg :=\n  {{| {fields} |}}.\n')


if __name__ == '__main__':
    import sys
    c, cons = translate(sys.argv[1] if len(sys.argv) > 1 else '/repo')
    print(emit(c))
    print(cons)
