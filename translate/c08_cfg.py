"""C08 — read from femio's source, fail-closed, the five places where
FEMAttribute / FEMAttributes decide whether a second representation of the
table is refreshed.  Result: the record `cfg` of coq/C08/Model.v, emitted as
coq/C08/gen/AttrCfg.v.  Each site must match one of the listed statement
forms exactly (compared as `ast.dump`); anything else raises TranslateError.

Everything else of C08's model is a hand model tied by the correspondence
check; this translator only keeps the theorem `cfg_ok cfg = true -> inv_step
for every operation` attached to the tree under test.
"""
import ast
import hashlib
from pathlib import Path


class TranslateError(Exception):
    pass


def _d(src):
    """ast.dump of a statement list given as source"""
    return [ast.dump(s) for s in ast.parse(src).body]


def _find_class(tree, name):
    for n in tree.body:
        if isinstance(n, ast.ClassDef) and n.name == name:
            return n
    raise TranslateError(f'class {name} not found')


def _find_funcs(cls, name):
    return [n for n in cls.body if isinstance(n, ast.FunctionDef) and n.name == name]


def _body(fn):
    """statements without the docstring and without a trailing bare return"""
    b = list(fn.body)
    if b and isinstance(b[0], ast.Expr) and isinstance(getattr(b[0], 'value', None), ast.Constant) \
            and isinstance(b[0].value.value, str):
        b = b[1:]
    if b and isinstance(b[-1], ast.Return) and b[-1].value is None:
        b = b[:-1]
    import copy
    return _inline_aliases([copy.deepcopy(x) for x in b])


def _is_chain(e):
    """`self`, `self.a`, `self.a.b` ... (no calls, no subscripts)"""
    while isinstance(e, ast.Attribute):
        e = e.value
    return isinstance(e, ast.Name) and e.id == 'self'


class _Subst(ast.NodeTransformer):
    def __init__(self, env):
        self.env = env

    def visit_Name(self, n):
        if isinstance(n.ctx, ast.Load) and n.id in self.env:
            return self.env[n.id]
        return n


def _inline_aliases(stmts):
    """`p = self.parent; ... p.x ...`  ->  `... self.parent.x ...` : a local that is
    assigned exactly once, at the top level of the body, to an attribute chain on
    `self`, and is never the target of another store, is replaced by the chain.
    (The chain is re-read at every use; the sites this is applied to do not
    rebind the attributes involved between the alias and its uses - if they
    did, the body would not match the registered form afterwards anyway.)"""
    stores = {}
    for st in stmts:
        for n in ast.walk(st):
            if isinstance(n, ast.Name) and isinstance(n.ctx, (ast.Store, ast.Del)):
                stores[n.id] = stores.get(n.id, 0) + 1
    env, out = {}, []
    for st in stmts:
        if isinstance(st, ast.Assign) and len(st.targets) == 1 and isinstance(st.targets[0], ast.Name) \
                and stores.get(st.targets[0].id) == 1 and _is_chain(_Subst(env).visit(st.value)) \
                and isinstance(st.value, ast.Attribute):
            env[st.targets[0].id] = st.value
            continue
        out.append(ast.fix_missing_locations(_Subst(env).visit(st)))
    return out


def _region(src, node):
    seg = ast.get_source_segment(src, node)
    return hashlib.sha256(seg.encode()).hexdigest()


ID2INDEX_INLINE = _d(
    'if self.generate_id2index:\n'
    '    self.id2index = pd.DataFrame(np.arange(len(self.ids)), index=self.ids)\n')
ID2INDEX_CALL = _d('self._update_id2index()\n')


def _strip_hooks(stmts, cls):
    """drop statements `self.<m>()` where method <m> of the class only forwards to a
    callback: its body stores to no attribute and no subscript and calls nothing on
    `self` (so it cannot change _data / _data_frame / id2index).  Example:
    `_notify_owner()` (tells the owning mesh that rows changed)."""
    out = []
    for st in stmts:
        if isinstance(st, ast.Expr) and isinstance(st.value, ast.Call) and not st.value.args \
                and not st.value.keywords and isinstance(st.value.func, ast.Attribute) \
                and isinstance(st.value.func.value, ast.Name) and st.value.func.value.id == 'self':
            fns = _find_funcs(cls, st.value.func.attr)
            if len(fns) == 1 and _is_pure_hook(fns[0]):
                continue
        out.append(st)
    return out


def _is_pure_hook(fn):
    for n in ast.walk(fn):
        if isinstance(n, (ast.Attribute, ast.Subscript)) and isinstance(n.ctx, (ast.Store, ast.Del)):
            return False
        if isinstance(n, ast.Call) and isinstance(n.func, ast.Attribute) \
                and isinstance(n.func.value, ast.Name) and n.func.value.id == 'self':
            return False
        if isinstance(n, (ast.Global, ast.Nonlocal)):
            return False
    return True


def _is_id2index_refresh(stmt, cls):
    d = ast.dump(stmt)
    if d == ID2INDEX_INLINE[0]:
        return True
    if d == ID2INDEX_CALL[0]:
        fns = _find_funcs(cls, '_update_id2index')
        if len(fns) != 1:
            raise TranslateError('_update_id2index called but not defined exactly once')
        b = [ast.dump(s) for s in _body(fns[0])]
        if b != ID2INDEX_INLINE:
            raise TranslateError('_update_id2index has an unexpected body')
        return True
    return False


# value of every flag on the registered tree (/repo b633f85; the same as at 38049d8, where every site is
# read by the grammar below): the hand model a site falls back to when its
# source can no longer be read (tie H for that site: the harness then widens
# the correspondence on the operations the site decides)
BASELINE = {'parent_refreshes_data': True, 'overwrite_uses_setter': True,
            'frame_setter_refreshes_id2index': True, 'ids_setter_refreshes_id2index': True,
            'scalar_key_uses_label': True}
# operations / reads a site decides (used to bias the widened correspondence)
SITE_OPS = {'parent_refreshes_data': ['SliceWrite'], 'overwrite_uses_setter': ['Overwrite'],
            'frame_setter_refreshes_id2index': ['Update', 'SetFrame'],
            'ids_setter_refreshes_id2index': ['SetIds'], 'scalar_key_uses_label': ['SliceWrite'],
            'id_keyed_filters': []}


def _leaves(e):
    """alternatives an expression can evaluate to (conditional expressions opened)"""
    if isinstance(e, ast.IfExp):
        return _leaves(e.body) + _leaves(e.orelse)
    return [e]


def _scalar_label_decision(branch, key_name, df_name):
    """In the single-row branch of _Indexer.__getitem__: is the id of the slice
    the index label of the selected row (`<df>.name` / `<df>[0].name`) or the
    key the caller passed?  Every assignment to `ids` in the branch is looked
    at, however the branch is nested or the alternatives are written."""
    kinds = set()
    for n in ast.walk(ast.Module(body=list(branch), type_ignores=[])):
        if isinstance(n, ast.Assign) and any(isinstance(t, ast.Name) and t.id == 'ids' for t in n.targets):
            v = n.value
            if not (isinstance(v, ast.List) and len(v.elts) == 1):
                raise TranslateError('_Indexer.__getitem__: single-row ids is not a one-element list')
            for leaf in _leaves(v.elts[0]):
                if isinstance(leaf, ast.Name) and leaf.id == key_name:
                    kinds.add('key')
                elif isinstance(leaf, ast.Attribute) and leaf.attr == 'name' and (
                        (isinstance(leaf.value, ast.Name) and leaf.value.id == df_name) or
                        (isinstance(leaf.value, ast.Subscript) and isinstance(leaf.value.value, ast.Name)
                         and leaf.value.value.id == df_name)):
                    kinds.add('label')
                else:
                    raise TranslateError('_Indexer.__getitem__: unrecognised single-row id expression')
    if kinds == {'label'}:
        return True
    if kinds == {'key'}:
        return False
    raise TranslateError('_Indexer.__getitem__: single-row ids not assigned uniformly')


def translate(repo):
    """-> (cfg, consumed, unreadable).  A site whose source is not in the
    grammar gets its BASELINE value and an entry {flag: reason} in `unreadable`
    (degrade T -> H; never an alarm by itself)."""
    repo = Path(repo)
    consumed = {}
    unreadable = {}
    f_attr = repo / 'femio' / 'fem_attribute.py'
    f_attrs = repo / 'femio' / 'fem_attributes.py'
    src_a = f_attr.read_text()
    src_s = f_attrs.read_text()
    tree_a = ast.parse(src_a)
    tree_s = ast.parse(src_s)
    cfg = {}

    def cls(tree, name):
        return _find_class(tree, name)

    def site(flag, fn):
        try:
            cfg[flag] = fn()
        except TranslateError as e:
            cfg[flag] = BASELINE[flag]
            unreadable[flag] = str(e)

    # 1. _update_parent
    def s1():
        A = cls(tree_a, 'FEMAttribute')
        fns = _find_funcs(A, '_update_parent')
        if len(fns) != 1:
            raise TranslateError('_update_parent not found exactly once')
        consumed['fem_attribute.py:FEMAttribute._update_parent'] = _region(src_a, fns[0])
        b = [ast.dump(s) for s in _strip_hooks(_body(fns[0]), A)]
        head = _d('if self.parent is None:\n    return\n'
                  'self.parent._data_frame.loc[self._data_frame.index] = self._data_frame\n')
        refresh = _d('self.parent._data = self.parent._data_frame.values\n')
        if b == head:
            return False
        if b == head + refresh:
            return True
        raise TranslateError('_update_parent: unrecognised body')
    site('parent_refreshes_data', s1)

    # 2. FEMAttributes.overwrite, branch `ids is None`
    def s2():
        S = cls(tree_s, 'FEMAttributes')
        fns = _find_funcs(S, 'overwrite')
        if len(fns) != 1:
            raise TranslateError('FEMAttributes.overwrite not found exactly once')
        consumed['fem_attributes.py:FEMAttributes.overwrite'] = _region(src_s, fns[0])
        b = _body(fns[0])
        exp_head = _d('if name not in self:\n    raise ValueError(f"{name} not in the data {self.keys()}")\n')
        exp_tail = _d('if name in config.LIST_MATERIALS:\n    self.material_overwritten = True\n')
        if len(b) != 3 or ast.dump(b[0]) != exp_head[0] or ast.dump(b[2]) != exp_tail[0] \
                or not isinstance(b[1], ast.If):
            raise TranslateError('overwrite: unrecognised structure')
        br = b[1]
        if ast.dump(br.test) != ast.dump(ast.parse('ids is None').body[0].value):
            raise TranslateError('overwrite: unrecognised test')
        if [ast.dump(s) for s in br.orelse] != _d(
                'fem_attribute = FEMAttribute(name, ids=ids, data=data)\nself[name] = fem_attribute\n'):
            raise TranslateError('overwrite: unrecognised ids branch')
        then = [ast.dump(s) for s in br.body]
        if then == _d('self[name]._data = data\n'):
            return False
        if then == _d('self[name].data = data\n'):
            return True
        raise TranslateError('overwrite: unrecognised `ids is None` branch')
    site('overwrite_uses_setter', s2)

    # 3. data_frame setter, 4. ids setter
    def setter(A, name):
        for fn in _find_funcs(A, name):
            for dec in fn.decorator_list:
                if isinstance(dec, ast.Attribute) and dec.attr == 'setter':
                    return fn
        raise TranslateError(f'{name} setter not found')

    def s3():
        A = cls(tree_a, 'FEMAttribute')
        fn = setter(A, 'data_frame')
        consumed['fem_attribute.py:FEMAttribute.data_frame.setter'] = _region(src_a, fn)
        b = _strip_hooks(_body(fn), A)
        exp_if = _d(
            'if isinstance(new_data_frame, pd.DataFrame):\n'
            '    self._data_frame = new_data_frame\n'
            '    self._data = new_data_frame.values\n'
            'elif isinstance(new_data_frame, (list, tuple)):\n'
            '    self._data_frame = new_data_frame\n'
            '    self._data = np.array([d.values for d in new_data_frame])\n'
            'else:\n'
            '    raise ValueError(f"Unsupported new_data_frame type for: {new_data_frame}")\n')
        upd_parent = _d('self._update_parent()\n')
        if not b or ast.dump(b[0]) != exp_if[0] or ast.dump(b[-1]) != upd_parent[0]:
            raise TranslateError('data_frame setter: unrecognised body')
        mid = b[1:-1]
        if not mid:
            return False
        if len(mid) == 1 and _is_id2index_refresh(mid[0], A):
            return True
        raise TranslateError('data_frame setter: unrecognised statement')
    site('frame_setter_refreshes_id2index', s3)

    def s4():
        A = cls(tree_a, 'FEMAttribute')
        fn = setter(A, 'ids')
        consumed['fem_attribute.py:FEMAttribute.ids.setter'] = _region(src_a, fn)
        b = _strip_hooks(_body(fn), A)
        if not b or ast.dump(b[0]) != _d('self._data_frame.index = value\n')[0]:
            raise TranslateError('ids setter: unrecognised body')
        if len(b) == 1:
            return False
        if len(b) == 2 and _is_id2index_refresh(b[1], A):
            return True
        raise TranslateError('ids setter: unrecognised statement')
    site('ids_setter_refreshes_id2index', s4)

    # 5. _Indexer.__getitem__, single-row branch: read by meaning (which value
    #    becomes the id of the slice), not by spelling
    def s5():
        I = cls(tree_a, '_Indexer')
        fns = _find_funcs(I, '__getitem__')
        if len(fns) != 1:
            raise TranslateError('_Indexer.__getitem__ not found')
        fn = fns[0]
        consumed['fem_attribute.py:_Indexer.__getitem__'] = _region(src_a, fn)
        args = [a.arg for a in fn.args.args]
        if len(args) != 2:
            raise TranslateError('_Indexer.__getitem__: unexpected signature')
        key_name = args[1]
        b = _body(fn)
        # the selected frame: <df> = self.indexer[<key>]
        df_name = None
        for s_ in b:
            if isinstance(s_, ast.Assign) and len(s_.targets) == 1 and isinstance(s_.targets[0], ast.Name) \
                    and ast.dump(s_.value) == ast.dump(ast.parse(f'self.indexer[{key_name}]').body[0].value):
                df_name = s_.targets[0].id
                break
        if df_name is None:
            raise TranslateError('_Indexer.__getitem__: selection `self.indexer[key]` not found')
        test = ast.dump(ast.parse(f'{df_name}.ndim == 1').body[0].value)
        branches = [s_ for s_ in b if isinstance(s_, ast.If) and ast.dump(s_.test) == test]
        if len(branches) != 1:
            raise TranslateError('_Indexer.__getitem__: single-row branch not found exactly once')
        return _scalar_label_decision(branches[0].body, key_name, df_name)
    site('scalar_key_uses_label', s5)

    # 6. the id-keyed filters the model represents by select_ids / cfilter / cextract: a body
    #    other than the registered one is no alarm, it makes the harness search deeper
    exact = [
        ('FEMAttribute', tree_a, src_a, 'fem_attribute.py', 'filter_with_ids',
         'return FEMAttribute(self.name, ids, self._data_frame.loc[ids].values, silent=True, '
         'time_series=self.time_series)\n'),
        ('FEMAttributes', tree_s, src_s, 'fem_attributes.py', 'filter_with_ids',
         'return FEMAttributes({key: value.filter_with_ids(ids) for key, value in self.items()}, '
         'is_elemental=self.is_elemental)\n'),
        ('FEMAttributes', tree_s, src_s, 'fem_attributes.py', 'extract_dict',
         'return {k: v.loc[ids].values for k, v in self.items()}\n'),
    ]
    for cname, tree, src, fname, fn, expected in exact:
        try:
            c_ = cls(tree, cname)
            fns = _find_funcs(c_, fn)
            if len(fns) != 1:
                raise TranslateError(f'{fname}: {fn} not found exactly once')
            consumed[f'{fname}:{cname}.{fn}'] = _region(src, fns[0])
            body = [s for s in fns[0].body if not (isinstance(s, ast.Expr) and isinstance(
                getattr(s, 'value', None), ast.Constant) and isinstance(s.value.value, str))]
            if [ast.dump(s) for s in body] != _d(expected):
                raise TranslateError(f'{fname}: {cname}.{fn}: body differs from the registered id-keyed '
                                     'selection')
        except TranslateError as e:
            unreadable.setdefault('id_keyed_filters', '')
            unreadable['id_keyed_filters'] = (unreadable['id_keyed_filters'] + '; ' + str(e)).strip('; ')
    return cfg, consumed, unreadable


FIELDS = ['parent_refreshes_data', 'overwrite_uses_setter', 'frame_setter_refreshes_id2index',
          'ids_setter_refreshes_id2index', 'scalar_key_uses_label']


def emit(cfg):
    b = lambda x: 'true' if x else 'false'
    fields = ';\n     '.join(f'{k} := {b(cfg[k])}' for k in FIELDS)
    return ('(* generated by translate/c08_cfg.py from the tree under test - do not edit *)\n'
            'From FV.C08 Require Import Model.\n'
            f'Definition cfg : Model.cfg :=\n  {{| {fields} |}}.\n')


if __name__ == '__main__':
    import sys
    c, cons, unread = translate(sys.argv[1] if len(sys.argv) > 1 else '/repo')
    print(emit(c))
    print(cons)
    print('unreadable:', unread)
