"""Fail-closed translator for C18: the tables of the re-typing code.

  femio/fem_data.py    {tet,hex,prism,pyr}_to_polyhedron  -> face lists (local node
                        indices) and whether the sorted rank is translated back to the
                        storage position with argsort[...];
                        to_polyhedron                      -> type -> kernel dispatch;
                        resolve_degeneracy                 -> the four collapse patterns
                        (equal columns, required equal columns, prism node order)
  femio/geometry_processor.py  _permute / make_elements_positive -> tet permutation

Everything that is not exactly of the expected shape raises TranslateError."""
import ast
import hashlib
import json
import re
from pathlib import Path


class TranslateError(Exception):
    pass


def sha(s):
    return hashlib.sha256(s.encode()).hexdigest()


def _method(cls, name):
    fs = [n for n in cls.body if isinstance(n, ast.FunctionDef) and n.name == name]
    if len(fs) != 1:
        raise TranslateError(f'{name}: found {len(fs)} definitions')
    return fs[0]


FACE_TAIL = ['face_dat = [len(faces)]',
             'for F in faces:\n    face_dat.append(len(F))\n    face_dat += F',
             'return face_dat']


def poly_kernel(fn):
    params = [a.arg for a in fn.args.args]
    if params != ['dat', 'node_ids', 'argsort']:
        raise TranslateError(f'{fn.name}: parameters {params}')
    body = [s for s in fn.body if not (isinstance(s, ast.Expr) and isinstance(s.value, ast.Constant))]
    if len(body) != 5:
        raise TranslateError(f'{fn.name}: unexpected body length {len(body)}')
    s0 = body[0]
    if not (isinstance(s0, ast.Assign) and len(s0.targets) == 1 and
            isinstance(s0.targets[0], ast.Tuple) and
            all(isinstance(e, ast.Name) for e in s0.targets[0].elts)):
        raise TranslateError(f'{fn.name}: first statement is not a tuple unpacking')
    names = [e.id for e in s0.targets[0].elts]
    if len(set(names)) != len(names):
        raise TranslateError(f'{fn.name}: repeated local name')
    rhs = ast.unparse(s0.value)
    if rhs == 'argsort[np.searchsorted(node_ids, dat)]':
        uses_argsort = True
    elif rhs == 'np.searchsorted(node_ids, dat)':
        uses_argsort = False
    else:
        raise TranslateError(f'{fn.name}: unexpected index expression {rhs}')
    s1 = body[1]
    if not (isinstance(s1, ast.Assign) and len(s1.targets) == 1 and
            isinstance(s1.targets[0], ast.Name) and s1.targets[0].id == 'faces' and
            isinstance(s1.value, ast.List)):
        raise TranslateError(f'{fn.name}: faces = [[...]] expected')
    faces = []
    for f in s1.value.elts:
        if not (isinstance(f, ast.List) and all(isinstance(e, ast.Name) for e in f.elts)):
            raise TranslateError(f'{fn.name}: a face is not a list of names')
        try:
            faces.append([names.index(e.id) for e in f.elts])
        except ValueError:
            raise TranslateError(f'{fn.name}: face uses an unknown name')
    for s, want in zip(body[2:], FACE_TAIL):
        if ast.unparse(s) != want:
            raise TranslateError(f'{fn.name}: unexpected statement {ast.unparse(s)!r}')
    return {'arity': len(names), 'uses_argsort': uses_argsort, 'faces': faces}


def _self_attr(n):
    if isinstance(n, ast.Attribute) and isinstance(n.value, ast.Name) and n.value.id == 'self':
        return n.attr
    return None


WHERE_TP = 'np.where(self.elements.types == tp)[0]'


class _Stop(Exception):
    def __init__(self, how):
        self.how = how


def _dispatch_for(loop_body, env0, ty):
    """abstract run of the body of `for tp in types:` for tp = ty: which kernel is called on
    elements[i] (and with which integer cast), or 'skip' / 'raise'"""
    env = dict(env0)
    calls = []

    def test(t):
        if isinstance(t, ast.Compare) and len(t.ops) == 1 and isinstance(t.left, ast.Name) and t.left.id == 'tp':
            op, r = t.ops[0], t.comparators[0]
            if isinstance(op, (ast.Eq, ast.NotEq)) and isinstance(r, ast.Constant) and isinstance(r.value, str):
                return (ty == r.value) == isinstance(op, ast.Eq)
            if isinstance(op, (ast.In, ast.NotIn)):
                if isinstance(r, ast.Name) and isinstance(env.get(r.id), dict):
                    keys = set(env[r.id])
                elif isinstance(r, (ast.Tuple, ast.List, ast.Set)) and \
                        all(isinstance(e, ast.Constant) for e in r.elts):
                    keys = {e.value for e in r.elts}
                else:
                    raise TranslateError(f'to_polyhedron: test {ast.unparse(t)!r}')
                return (ty in keys) == isinstance(op, ast.In)
        raise TranslateError(f'to_polyhedron: test {ast.unparse(t)!r}')

    def run(stmts):
        for st in stmts:
            if isinstance(st, ast.Pass) or (isinstance(st, ast.Expr) and isinstance(st.value, ast.Constant)):
                continue
            if isinstance(st, ast.Continue):
                raise _Stop('skip')
            if isinstance(st, ast.Raise):
                if 'NotImplementedError' not in ast.unparse(st):
                    raise TranslateError('to_polyhedron: raises something else than NotImplementedError')
                raise _Stop('raise')
            if isinstance(st, ast.If):
                run(st.body if test(st.test) else st.orelse)
                continue
            if isinstance(st, ast.Assign) and len(st.targets) == 1 and isinstance(st.targets[0], ast.Name):
                nm, v = st.targets[0].id, st.value
                if ast.unparse(v) == WHERE_TP:
                    env[nm] = 'INDICES'
                    continue
                if isinstance(v, ast.Subscript) and isinstance(v.value, ast.Name) and \
                        isinstance(env.get(v.value.id), dict) and ast.unparse(v.slice) == 'tp':
                    if ty not in env[v.value.id]:
                        raise _Stop('raise')          # KeyError: not the modelled NotImplementedError
                    env[nm] = ('kernel', env[v.value.id][ty])
                    continue
                if _self_attr(v):
                    env[nm] = ('kernel', _self_attr(v))
                    continue
            if isinstance(st, ast.For) and isinstance(st.target, ast.Name) and st.target.id == 'i' \
                    and not st.orelse and len(st.body) == 1:
                it = st.iter
                if not ((isinstance(it, ast.Name) and env.get(it.id) == 'INDICES') or ast.unparse(it) == WHERE_TP):
                    raise TranslateError(f'to_polyhedron: loop over {ast.unparse(it)!r}')
                b = st.body[0]
                if isinstance(b, ast.Assign) and ast.unparse(b.targets[0]) == 'face_dat[i]' and \
                        isinstance(b.value, ast.Call) and not b.value.keywords and len(b.value.args) == 3:
                    f = b.value.func
                    kn = _self_attr(f) or (isinstance(f, ast.Name) and isinstance(env.get(f.id), tuple)
                                           and env[f.id][1])
                    args = [ast.unparse(a) for a in b.value.args]
                    m = re.fullmatch(r'elements\[i\]\.astype\(np\.(int32|int64)\)', args[0])
                    if kn and m and args[1:] == ['node_ids', 'argsort']:
                        calls.append((kn, m.group(1) == 'int32'))
                        continue
            raise TranslateError(f'to_polyhedron: statement {ast.unparse(st)[:80]!r} in the type loop')
    try:
        run(loop_body)
    except _Stop as e:
        if calls:
            raise TranslateError(f'to_polyhedron: {ty}: kernel call followed by {e.how}')
        return e.how
    if len(calls) > 1:
        raise TranslateError(f'to_polyhedron: {ty}: {len(calls)} kernel calls')
    return calls[0] if calls else 'skip'


COPY_FUNCS = {'np.array', 'np.asarray', 'np.asanyarray', 'np.copy', 'np.ascontiguousarray', 'numpy.array',
              'copy.copy', 'copy.deepcopy'}


def _copy_helpers(cls):
    """private methods with one array parameter that only build and return a value
    (no assignment to an attribute or item of self, every return has a value): candidates
    for "returns a copy of its argument" -- that the content is equal is checked on every
    run by the oracle (ids / connectivity of the polyhedral mesh == the source mesh's)"""
    out = set()
    for n in cls.body:
        if not (isinstance(n, ast.FunctionDef) and n.name.startswith('_')):
            continue
        params = [a.arg for a in n.args.args]
        static = any(ast.unparse(d) == 'staticmethod' for d in n.decorator_list)
        if len(params) != (1 if static else 2) or (not static and params[0] != 'self'):
            continue
        rets = [x for x in ast.walk(n) if isinstance(x, ast.Return)]
        writes = [t for x in ast.walk(n) if isinstance(x, (ast.Assign, ast.AugAssign))
                  for t in (x.targets if isinstance(x, ast.Assign) else [x.target])
                  if any(isinstance(y, ast.Name) and y.id == 'self' for y in ast.walk(t))]
        if rets and all(r.value is not None for r in rets) and not writes:
            out.add(n.name)
    return out


class _StripCopies(ast.NodeTransformer):
    """np.array(x) / np.asarray(x) / x.copy() / self._helper(x) -> x"""
    def __init__(self, helpers):
        self.helpers = helpers

    def visit_Call(self, n):
        self.generic_visit(n)
        f = ast.unparse(n.func)
        if len(n.args) == 1 and not n.keywords and (
                f in COPY_FUNCS or
                (isinstance(n.func, ast.Attribute) and isinstance(n.func.value, ast.Name) and
                 n.func.value.id in ('self', 'FEMData', 'cls') and n.func.attr in self.helpers)):
            return n.args[0]
        if not n.args and not n.keywords and isinstance(n.func, ast.Attribute) and n.func.attr == 'copy':
            return n.func.value
        return n


def to_polyhedron(fn, cls=None):
    """the prologue / epilogue are pinned; the dispatch type -> kernel inside the type loop
    is obtained by an abstract run of the loop body for each type (if / elif chains, a
    dict of kernels, guard clauses with continue / raise are all read the same way)"""
    src = ast.unparse(fn)
    need = ['node_ids = self.nodes.ids', 'argsort = node_ids.argsort()',
            'node_ids = node_ids[argsort]', 'elements = self.elements.data',
            'types = np.unique(self.elements.types)', WHERE_TP]
    for n in need:
        if src.count(n) != 1:
            raise TranslateError(f'to_polyhedron: expected exactly one {n!r}')
    loops = [s for s in fn.body if isinstance(s, ast.For)]
    if not loops or ast.unparse(loops[0].target) != 'tp' or ast.unparse(loops[0].iter) != 'types':
        raise TranslateError('to_polyhedron: type loop not found')
    env = {}
    for s in fn.body[:fn.body.index(loops[0])]:
        if isinstance(s, ast.Assign) and len(s.targets) == 1 and isinstance(s.targets[0], ast.Name) and \
                isinstance(s.value, ast.Dict) and s.value.keys and \
                all(isinstance(k, ast.Constant) and isinstance(k.value, str) for k in s.value.keys) and \
                all(_self_attr(v) for v in s.value.values):
            env[s.targets[0].id] = {k.value: _self_attr(v) for k, v in zip(s.value.keys, s.value.values)}
    disp = {}
    for ty in KERNEL_TYPES:
        r = _dispatch_for(loops[0].body, env, ty)
        if not isinstance(r, tuple):
            raise TranslateError(f'to_polyhedron: type {ty} is not converted ({r})')
        disp[ty] = r
    if _dispatch_for(loops[0].body, env, 'polyhedron') != 'skip':
        raise TranslateError('to_polyhedron: polyhedron cells are not passed through')
    if _dispatch_for(loops[0].body, env, 'quad') != 'raise':
        raise TranslateError('to_polyhedron: unsupported types do not raise')
    tail = ["polyhedron = FEMAttribute('polyhedron', ids=self.elements.ids, data=self.elements.data)",
            "elements = FEMElementalAttribute('ELEMENT', {'polyhedron': polyhedron})",
            "face = FEMElementalAttribute('face', {'polyhedron': FEMAttribute('face', "
            "ids=self.elements.ids, data=face_dat)})"]
    # wrappers that only copy an array given to the result constructor are the identity here
    import copy as _copy
    src_tail = ast.unparse(_StripCopies(_copy_helpers(cls) if cls is not None else set()).visit(
        _copy.deepcopy(fn)))
    for n in tail:
        if src_tail.count(n) != 1:
            raise TranslateError(f'to_polyhedron: expected {n!r}')
    return disp


def _col(node, base):
    """base[:, k] -> k"""
    if isinstance(node, ast.Subscript) and isinstance(node.value, ast.Name) and node.value.id == base \
            and isinstance(node.slice, ast.Tuple) and len(node.slice.elts) == 2 and \
            isinstance(node.slice.elts[0], ast.Slice) and isinstance(node.slice.elts[1], ast.Constant):
        return node.slice.elts[1].value
    return None


def resolve_degeneracy(fn):
    src = ast.unparse(fn)
    eq = {}
    for s in fn.body:
        if isinstance(s, ast.Assign) and len(s.targets) == 1 and isinstance(s.targets[0], ast.Name) \
                and s.targets[0].id.startswith('equal_'):
            v = s.value
            if not (isinstance(v, ast.Compare) and len(v.ops) == 1 and isinstance(v.ops[0], ast.Eq)):
                raise TranslateError('resolve_degeneracy: unexpected equal_ definition')
            a, b = _col(v.left, 'hex_data'), _col(v.comparators[0], 'hex_data')
            if a is None or b is None:
                raise TranslateError('resolve_degeneracy: unexpected equal_ definition')
            eq[s.targets[0].id] = (a, b)
    if len(eq) != 4:
        raise TranslateError(f'resolve_degeneracy: {len(eq)} collapse tests')
    # required companions:  np.all(hex_data[equal_01, 4] == hex_data[equal_01, 5])
    req = {}
    for n in ast.walk(fn):
        if isinstance(n, ast.Call) and ast.unparse(n.func) == 'np.all' and len(n.args) == 1 and \
                isinstance(n.args[0], ast.Compare):
            c = n.args[0]
            l, r = c.left, c.comparators[0]

            def parse(x):
                if isinstance(x, ast.Subscript) and isinstance(x.value, ast.Name) and \
                        x.value.id == 'hex_data' and isinstance(x.slice, ast.Tuple) and \
                        isinstance(x.slice.elts[0], ast.Name) and isinstance(x.slice.elts[1], ast.Constant):
                    return x.slice.elts[0].id, x.slice.elts[1].value
                return None
            pl, pr = parse(l), parse(r)
            if pl is None or pr is None or pl[0] != pr[0] or pl[0] not in eq:
                raise TranslateError('resolve_degeneracy: unexpected np.all test')
            req[pl[0]] = (pl[1], pr[1])
    if set(req) != set(eq):
        raise TranslateError('resolve_degeneracy: companion tests do not cover the four patterns')
    if src.count('nondegenerate = ~(equal_01 | equal_12 | equal_23 | equal_30)') != 1:
        raise TranslateError('resolve_degeneracy: nondegenerate mask')
    # prism_ids / prism_data concatenations
    ids_order, perms = None, None
    for s in fn.body:
        if isinstance(s, ast.Assign) and len(s.targets) == 1 and isinstance(s.targets[0], ast.Name):
            nm = s.targets[0].id
            v = s.value
            if nm in ('prism_ids', 'prism_data') and isinstance(v, ast.Call) and \
                    ast.unparse(v.func) == 'np.concatenate' and isinstance(v.args[0], ast.List):
                items = v.args[0].elts
                if ast.unparse(items[0]) != nm:
                    raise TranslateError('resolve_degeneracy: concatenation must start with the old block')
                if nm == 'prism_ids':
                    ids_order = []
                    for it in items[1:]:
                        if not (isinstance(it, ast.Subscript) and ast.unparse(it.value) == 'hex_ids'
                                and isinstance(it.slice, ast.Name)):
                            raise TranslateError('resolve_degeneracy: prism_ids item')
                        ids_order.append(it.slice.id)
                else:
                    perms = []
                    for it in items[1:]:
                        # hex_data[equal_01][:, [0, 3, 2, 4, 7, 6]]
                        if not (isinstance(it, ast.Subscript) and isinstance(it.value, ast.Subscript)
                                and ast.unparse(it.value.value) == 'hex_data'
                                and isinstance(it.value.slice, ast.Name)
                                and isinstance(it.slice, ast.Tuple)
                                and isinstance(it.slice.elts[1], ast.List)):
                            raise TranslateError('resolve_degeneracy: prism_data item')
                        perm = [e.value for e in it.slice.elts[1].elts]
                        perms.append((it.value.slice.id, perm))
    if ids_order is None or perms is None or [p[0] for p in perms] != ids_order or \
            sorted(ids_order) != sorted(eq):
        raise TranslateError('resolve_degeneracy: id / data concatenations do not match')
    for n in ['IDX = np.argsort(prism_ids)', 'prism_ids = prism_ids[IDX]', 'prism_data = prism_data[IDX]',
              'hex_ids = hex_ids[nondegenerate]', 'hex_data = hex_data[nondegenerate]']:
        if src.count(n) != 1:
            raise TranslateError(f'resolve_degeneracy: expected {n!r}')
    return [{'name': nm, 'equal': eq[nm], 'required': req[nm], 'perm': perm} for nm, perm in perms]


def _module_consts(tree):
    """module-level NAME = <literal>"""
    out = {}
    for n in tree.body:
        if isinstance(n, ast.Assign) and len(n.targets) == 1 and isinstance(n.targets[0], ast.Name):
            try:
                out[n.targets[0].id] = ast.literal_eval(n.value)
            except (ValueError, SyntaxError):
                pass
    return out


def _columns(v, consts):
    """the column order of `np.stack([elements[:, k] ...], axis=-1)` (list or comprehension
    over a constant) or `elements[:, [k ...]]`"""
    def const_seq(n):
        if isinstance(n, ast.Name) and isinstance(consts.get(n.id), (tuple, list)):
            return list(consts[n.id])
        try:
            x = ast.literal_eval(n)
        except (ValueError, SyntaxError):
            return None
        return list(x) if isinstance(x, (tuple, list)) else None
    if isinstance(v, ast.Call) and ast.unparse(v.func) == 'np.stack' and len(v.args) == 1 and \
            [(k.arg, ast.unparse(k.value)) for k in v.keywords] in ([('axis', '-1')], [('axis', '1')]):
        a = v.args[0]
        if isinstance(a, ast.List):
            cols = [_col(e, 'elements') for e in a.elts]
            return None if None in cols else cols
        if isinstance(a, ast.ListComp) and len(a.generators) == 1 and not a.generators[0].ifs and \
                isinstance(a.generators[0].target, ast.Name):
            i = a.generators[0].target.id
            if ast.unparse(a.elt) == f'elements[:, {i}]':
                return const_seq(a.generators[0].iter)
        return None
    if isinstance(v, ast.Subscript) and isinstance(v.value, ast.Name) and v.value.id == 'elements' and \
            isinstance(v.slice, ast.Tuple) and len(v.slice.elts) == 2 and \
            ast.unparse(v.slice.elts[0]) == ':':
        return const_seq(v.slice.elts[1])
    return None


def permute(fn, consts=None):
    """abstract run of _permute for element_type == 'tet' on a non-empty block: the value
    returned (guard clauses, if / elif chains and a local alias of the element type read alike)"""
    consts = consts or {}
    alias = {'self.elements.element_type'}

    def test(t):
        if isinstance(t, ast.Compare) and len(t.ops) == 1:
            l, op, r = ast.unparse(t.left), t.ops[0], t.comparators[0]
            if l in alias and isinstance(r, ast.Constant) and isinstance(r.value, str) and \
                    isinstance(op, (ast.Eq, ast.NotEq)):
                return ('tet' == r.value) == isinstance(op, ast.Eq)
            if l in alias and isinstance(op, (ast.In, ast.NotIn)):
                try:
                    return ('tet' in ast.literal_eval(r)) == isinstance(op, ast.In)
                except (ValueError, SyntaxError):
                    pass
            if l == 'len(elements)' and isinstance(op, ast.Eq) and ast.unparse(r) == '0':
                return False
        raise TranslateError(f'_permute: test {ast.unparse(t)!r}')

    def run(stmts):
        for st in stmts:
            if isinstance(st, ast.Expr) and isinstance(st.value, ast.Constant):
                continue
            if isinstance(st, ast.Assign) and len(st.targets) == 1 and isinstance(st.targets[0], ast.Name) \
                    and ast.unparse(st.value) in alias and st.targets[0].id != 'elements':
                alias.add(st.targets[0].id)
                continue
            if isinstance(st, ast.If):
                r = run(st.body if test(st.test) else st.orelse)
                if r is not None:
                    return r
                continue
            if isinstance(st, ast.Return) and st.value is not None:
                cols = _columns(st.value, consts)
                if cols is None or not all(isinstance(c, int) and not isinstance(c, bool) for c in cols):
                    raise TranslateError(f'_permute: tet rows become {ast.unparse(st.value)!r}')
                return cols
            raise TranslateError(f'_permute: statement {ast.unparse(st)[:80]!r} on the tet path')
        return None
    cols = run(fn.body)
    if cols is None:
        raise TranslateError('_permute: tet branch not found')
    return cols


class _Rename(ast.NodeTransformer):
    def __init__(self, mapping):
        self.mapping = mapping

    def visit_Name(self, n):
        return ast.copy_location(ast.Name(id=self.mapping.get(n.id, n.id), ctx=n.ctx), n)


POSITIVE_CORE = [
    {'metric = self.calculate_element_metrics(raise_negative_metric=False)[:, 0]'},
    {'cond = metric < 0', 'cond = metric < 0.0'},
    {'if np.sum(cond) == 0:\n    return', 'if cond.sum() == 0:\n    return',
     'if not np.any(cond):\n    return', 'if not cond.any():\n    return'},
    {'elements = self.elements.data'},
    {'elements[cond] = self._permute(self.elements.data[cond])', 'elements[cond] = self._permute(elements[cond])'},
    {'self.elements.data = elements'}]


def positive_parts(fn, cls):
    """(locals, tail): the six statements that decide WHAT is permuted, compared up to the
    names of the three locals and the spelling of "no negative entry"; the statements
    after the write-back with helper methods `self._h()` inlined one level"""
    import copy
    stmts = [s for s in fn.body
             if not (isinstance(s, ast.Expr) and isinstance(s.value, ast.Constant))]
    if len(stmts) < 6:
        raise TranslateError('make_elements_positive: too short')

    def tgt(s):
        if isinstance(s, ast.Assign) and len(s.targets) == 1 and isinstance(s.targets[0], ast.Name):
            return s.targets[0].id
        raise TranslateError(f'make_elements_positive: {ast.unparse(s)[:60]!r} is not an assignment to a local')
    loc = [tgt(stmts[0]), tgt(stmts[1]), tgt(stmts[3])]
    if len(set(loc)) != 3:
        raise TranslateError('make_elements_positive: locals')
    mapping = dict(zip(loc, ['metric', 'cond', 'elements']))
    for s, want in zip(stmts[:6], POSITIVE_CORE):
        got = ast.unparse(_Rename(mapping).visit(copy.deepcopy(s)))
        if got not in want:
            raise TranslateError('make_elements_positive: the statements computing cond / permuting '
                                 f'rows / writing back differ from the modelled ones: {got!r}')
    tail = []
    for st in stmts[6:]:
        h = None
        if isinstance(st, ast.Expr) and isinstance(st.value, ast.Call) and not st.value.args and \
                not st.value.keywords and _self_attr(st.value.func):
            hs = [n for n in cls.body if isinstance(n, ast.FunctionDef) and n.name == _self_attr(st.value.func)]
            if len(hs) == 1 and [a.arg for a in hs[0].args.args] == ['self'] and not hs[0].decorator_list:
                h = hs[0]
        if h is None:
            tail.append(st)
        else:
            tail += [b for b in h.body if not (isinstance(b, ast.Expr) and isinstance(b.value, ast.Constant))
                     and not (isinstance(b, ast.Return) and b.value is None)]
    return loc, tail


def make_positive(fn, cls):
    """Strict on the statements that decide WHAT is permuted (metric, cond, the
    early return, the permutation of exactly the rows in cond, the write-back);
    after the write-back any bookkeeping is accepted as long as it cannot touch
    the mesh: no use of the three locals, no access to self.elements or
    self.nodes, no raise, no return of a value."""
    loc, tail = positive_parts(fn, cls)
    for st in tail:
        for n in ast.walk(st):
            bad = (isinstance(n, ast.Name) and n.id in loc) or \
                  (isinstance(n, ast.Attribute) and n.attr in ('elements', 'nodes') and
                   isinstance(n.value, ast.Name) and n.value.id == 'self') or \
                  isinstance(n, ast.Raise) or (isinstance(n, ast.Return) and n.value is not None)
            if bad:
                raise TranslateError('make_elements_positive: statement after the write-back '
                                     f'touches the mesh: {ast.unparse(st)!r}')
    return True


# ------------------------------------- resolve_degeneracy written over a constant table
def _bind(target, value, env):
    """tuple-unpacking of a loop target against a constant table entry"""
    if isinstance(target, ast.Name):
        if target.id != '_':
            env[target.id] = value
        return
    if isinstance(target, (ast.Tuple, ast.List)) and isinstance(value, (tuple, list)) and \
            len(target.elts) == len(value):
        for t, v in zip(target.elts, value):
            _bind(t, v, env)
        return
    raise TranslateError(f'resolve_degeneracy: cannot bind {ast.unparse(target)!r} to {value!r}')


def _ev(node, env):
    """integer / list-of-integers value of an expression over bound loop variables"""
    if isinstance(node, ast.Name) and node.id in env:
        return env[node.id]
    if isinstance(node, ast.BinOp) and isinstance(node.op, (ast.Add, ast.Sub)):
        a, b = _ev(node.left, env), _ev(node.right, env)
        if isinstance(a, int) and isinstance(b, int):
            return a + b if isinstance(node.op, ast.Add) else a - b
    try:
        return ast.literal_eval(node)
    except (ValueError, SyntaxError):
        raise TranslateError(f'resolve_degeneracy: value of {ast.unparse(node)!r}')


def _is_int(x):
    return isinstance(x, int) and not isinstance(x, bool)


def resolve_degeneracy_table(fn, consts):
    """the same decisions as resolve_degeneracy() reads from the unrolled code, read from
    a version that loops over a module-level constant table: list of masks by
    comprehension, companion test in a loop over zip(masks, TABLE), concatenations by
    comprehension.  The loops are unrolled here by binding the loop targets to the
    table entries and evaluating the column expressions (a + 4 ...)."""
    def assigns(name):
        return [s for s in fn.body if isinstance(s, ast.Assign) and len(s.targets) == 1 and
                isinstance(s.targets[0], ast.Name) and s.targets[0].id == name]

    def comp_over(node):
        """ListComp with one generator, no condition -> (elt, target, iter)"""
        if isinstance(node, ast.ListComp) and len(node.generators) == 1 and not node.generators[0].ifs:
            g = node.generators[0]
            return node.elt, g.target, g.iter
        return None
    # a. the masks
    masks = table = None
    for s in fn.body:
        if isinstance(s, ast.Assign) and len(s.targets) == 1 and isinstance(s.targets[0], ast.Name):
            c = comp_over(s.value)
            if c and isinstance(c[2], ast.Name) and isinstance(consts.get(c[2].id), (tuple, list)) and \
                    isinstance(c[0], ast.Compare) and len(c[0].ops) == 1 and isinstance(c[0].ops[0], ast.Eq):
                if masks is not None:
                    raise TranslateError('resolve_degeneracy: two mask lists')
                masks, table, mask_comp = s.targets[0].id, c[2].id, c
    if masks is None:
        raise TranslateError('resolve_degeneracy: no list of collapse masks over a constant table')
    entries = consts[table]
    if len(entries) == 0:
        raise TranslateError('resolve_degeneracy: empty table')

    def col_expr(node, base_idx, env):
        """hex_data[<base_idx>, E] -> value of E"""
        if isinstance(node, ast.Subscript) and isinstance(node.value, ast.Name) and node.value.id == 'hex_data' \
                and isinstance(node.slice, ast.Tuple) and len(node.slice.elts) == 2 and \
                ast.unparse(node.slice.elts[0]) == base_idx:
            v = _ev(node.slice.elts[1], env)
            if _is_int(v):
                return v
        raise TranslateError(f'resolve_degeneracy: column expression {ast.unparse(node)!r}')
    equal = []
    for e in entries:
        env = {}
        _bind(mask_comp[1], e, env)
        equal.append((col_expr(mask_comp[0].left, ':', env), col_expr(mask_comp[0].comparators[0], ':', env)))

    def zip_targets(target, it):
        """for <mask>, T in zip(masks, TABLE)  (either order) -> (mask name, T)"""
        if isinstance(it, ast.Call) and ast.unparse(it.func) == 'zip' and len(it.args) == 2 and \
                isinstance(target, ast.Tuple) and len(target.elts) == 2:
            names = [ast.unparse(a) for a in it.args]
            if names == [masks, table] and isinstance(target.elts[0], ast.Name):
                return target.elts[0].id, target.elts[1]
            if names == [table, masks] and isinstance(target.elts[1], ast.Name):
                return target.elts[1].id, target.elts[0]
        raise TranslateError(f'resolve_degeneracy: loop over {ast.unparse(it)!r}')
    # b. the companion test
    loops = [s for s in fn.body if isinstance(s, ast.For)]
    if len(loops) != 1 or loops[0].orelse or len(loops[0].body) != 1:
        raise TranslateError('resolve_degeneracy: expected one loop (the companion test)')
    mname, ttarget = zip_targets(loops[0].target, loops[0].iter)
    st = loops[0].body[0]
    if not (isinstance(st, ast.If) and not st.orelse and len(st.body) == 1 and isinstance(st.body[0], ast.Raise)
            and 'ValueError' in ast.unparse(st.body[0]) and
            isinstance(st.test, ast.UnaryOp) and isinstance(st.test.op, ast.Not) and
            isinstance(st.test.operand, ast.Call) and ast.unparse(st.test.operand.func) == 'np.all' and
            len(st.test.operand.args) == 1 and isinstance(st.test.operand.args[0], ast.Compare) and
            len(st.test.operand.args[0].ops) == 1 and isinstance(st.test.operand.args[0].ops[0], ast.Eq)):
        raise TranslateError('resolve_degeneracy: companion test is not `if not np.all(a == b): raise ValueError`')
    cmp_ = st.test.operand.args[0]
    required = []
    for e in entries:
        env = {}
        _bind(ttarget, e, env)
        required.append((col_expr(cmp_.left, mname, env), col_expr(cmp_.comparators[0], mname, env)))
    # c. d. e. mask of the hexes that stay; ids and rows appended pattern by pattern
    src = ast.unparse(fn)
    if src.count(f'nondegenerate = ~np.any({masks}, axis=0)') != 1:
        raise TranslateError('resolve_degeneracy: nondegenerate mask')
    perms = None
    ids_ok = False
    for nm in ('prism_ids', 'prism_data'):
        for s in assigns(nm):
            v = s.value
            if not (isinstance(v, ast.Call) and ast.unparse(v.func) == 'np.concatenate' and len(v.args) == 1
                    and not v.keywords):
                continue
            a = v.args[0]
            if not (isinstance(a, ast.BinOp) and isinstance(a.op, ast.Add) and ast.unparse(a.left) == f'[{nm}]'):
                raise TranslateError(f'resolve_degeneracy: {nm} concatenation must start with the old block')
            c = comp_over(a.right)
            if c is None:
                raise TranslateError(f'resolve_degeneracy: {nm} concatenation')
            if nm == 'prism_ids':
                if not (isinstance(c[1], ast.Name) and ast.unparse(c[2]) == masks and
                        ast.unparse(c[0]) == f'hex_ids[{c[1].id}]'):
                    raise TranslateError('resolve_degeneracy: prism_ids item')
                ids_ok = True
            else:
                m2, t2 = zip_targets(c[1], c[2])
                e0 = c[0]
                if not (isinstance(e0, ast.Subscript) and ast.unparse(e0.value) == f'hex_data[{m2}]' and
                        isinstance(e0.slice, ast.Tuple) and len(e0.slice.elts) == 2 and
                        ast.unparse(e0.slice.elts[0]) == ':'):
                    raise TranslateError('resolve_degeneracy: prism_data item')
                perms = []
                for e in entries:
                    env = {}
                    _bind(t2, e, env)
                    pv = _ev(e0.slice.elts[1], env)
                    if not (isinstance(pv, (list, tuple)) and all(_is_int(x) for x in pv)):
                        raise TranslateError('resolve_degeneracy: prism node order')
                    perms.append(list(pv))
    if not ids_ok or perms is None:
        raise TranslateError('resolve_degeneracy: id / data concatenations not found')
    # f. sort by id, keep the other hexes
    m = re.search(r'(\w+) = np\.argsort\(prism_ids\)', src)
    if not m:
        raise TranslateError('resolve_degeneracy: argsort of the prism ids')
    x = m.group(1)
    for n in [f'prism_ids = prism_ids[{x}]', f'prism_data = prism_data[{x}]',
              'hex_ids = hex_ids[nondegenerate]', 'hex_data = hex_data[nondegenerate]']:
        if src.count(n) != 1:
            raise TranslateError(f'resolve_degeneracy: expected {n!r}')
    return [{'name': f'{table}[{k}]', 'equal': list(equal[k]), 'required': list(required[k]), 'perm': perms[k]}
            for k in range(len(entries))]


def resolve_degeneracy_any(fn, consts):
    try:
        return resolve_degeneracy(fn)
    except TranslateError as e1:
        try:
            return resolve_degeneracy_table(fn, consts)
        except TranslateError as e2:
            raise TranslateError(f'{e1}; as a loop over a constant table: {e2}')


# ------------------------------------------------------------------ memo slots
def _int_const(n):
    if isinstance(n, ast.Constant) and isinstance(n.value, int) and not isinstance(n.value, bool):
        return n.value
    if isinstance(n, ast.UnaryOp) and isinstance(n.op, ast.USub):
        v = _int_const(n.operand)
        return None if v is None else -v
    return None


class _Unknown(Exception):
    pass


class SlotExpr:
    """the decision of _slot_answers as (a) its value when `stored is None`, by partial
    evaluation with Python's short-circuit order, and (b) a Gallina boolean over
    `stored options : list oval` for an entry that has options"""
    TUPLES = ('stored', 'options')

    def tup(self, n):
        if isinstance(n, ast.Name) and n.id in self.TUPLES:
            return n.id
        if isinstance(n, ast.Subscript) and isinstance(n.slice, ast.Slice) and n.slice.step is None:
            base = self.tup(n.value)
            lo, hi = n.slice.lower, n.slice.upper
            if lo is None and hi is not None:
                k = _int_const(hi)
                if k is not None and k < 0:
                    return f'(py_until_neg {-k} {base})'
                if k is not None:
                    return f'(py_until {k} {base})'
            if hi is None and lo is not None:
                k = _int_const(lo)
                if k is not None and k < 0:
                    return f'(py_from_neg {-k} {base})'
                if k is not None:
                    return f'(py_from {k} {base})'
            raise TranslateError(f'_slot_answers: slice {ast.unparse(n)!r}')
        if isinstance(n, ast.Tuple):
            return '[' + '; '.join(self.elt(e) for e in n.elts) + ']'
        raise TranslateError(f'_slot_answers: not an options tuple: {ast.unparse(n)!r}')

    def is_tup(self, n):
        try:
            self.tup(n)
            return True
        except TranslateError:
            return False

    def elt(self, n):
        if isinstance(n, ast.Constant) and isinstance(n.value, bool):
            return f'(OB {"true" if n.value else "false"})'
        if isinstance(n, ast.Constant) and isinstance(n.value, str) and '"' not in n.value:
            return f'(OS "{n.value}")'
        if isinstance(n, ast.Subscript) and not isinstance(n.slice, ast.Slice):
            k = _int_const(n.slice)
            base = self.tup(n.value)
            # only indices that exist in every options tuple (length >= 2)
            if k is not None and -2 <= k < 0 and base in self.TUPLES:
                return f'(py_neg_index {-k} {base})'
            if k is not None and 0 <= k <= 1 and base in self.TUPLES:
                return f'(py_index {k} {base})'
        raise TranslateError(f'_slot_answers: not an options entry: {ast.unparse(n)!r}')

    def boolean(self, n):
        if isinstance(n, ast.Constant) and isinstance(n.value, bool):
            return 'true' if n.value else 'false'
        if isinstance(n, ast.BoolOp):
            op = ' && ' if isinstance(n.op, ast.And) else ' || '
            return '(' + op.join(self.boolean(v) for v in n.values) + ')'
        if isinstance(n, ast.UnaryOp) and isinstance(n.op, ast.Not):
            return f'(negb {self.boolean(n.operand)})'
        if isinstance(n, ast.Compare) and len(n.ops) == 1:
            l, r, op = n.left, n.comparators[0], n.ops[0]
            if isinstance(op, (ast.Is, ast.IsNot)) and isinstance(l, ast.Name) and l.id == 'stored' \
                    and isinstance(r, ast.Constant) and r.value is None:
                return 'false' if isinstance(op, ast.Is) else 'true'
            if isinstance(op, (ast.Eq, ast.NotEq)):
                if self.is_tup(l) and self.is_tup(r):
                    e = f'(opts_eqb {self.tup(l)} {self.tup(r)})'
                else:
                    e = f'(oval_eqb {self.elt(l)} {self.elt(r)})'
                return e if isinstance(op, ast.Eq) else f'(negb {e})'
            raise TranslateError(f'_slot_answers: comparison {ast.unparse(n)!r}')
        return f'(truthy {self.elt(n)})'

    def when_none(self, n):
        """value with stored = None; _Unknown if it depends on `options`; TranslateError if
        Python would raise (None[...])"""
        if isinstance(n, ast.Constant) and isinstance(n.value, bool):
            return n.value
        if isinstance(n, ast.BoolOp):
            is_and = isinstance(n.op, ast.And)
            for v in n.values:
                x = self.when_none(v)
                if x is (not is_and):
                    return x
            return is_and
        if isinstance(n, ast.UnaryOp) and isinstance(n.op, ast.Not):
            return not self.when_none(n.operand)
        if isinstance(n, ast.Compare) and len(n.ops) == 1:
            l, r, op = n.left, n.comparators[0], n.ops[0]
            if isinstance(op, (ast.Is, ast.IsNot)) and isinstance(l, ast.Name) and l.id == 'stored' \
                    and isinstance(r, ast.Constant) and r.value is None:
                return isinstance(op, ast.Is)
            names = {x.id for x in ast.walk(n) if isinstance(x, ast.Name)}
            subs = [x for x in ast.walk(n) if isinstance(x, ast.Subscript)
                    and isinstance(x.value, ast.Name) and x.value.id == 'stored']
            if subs:
                raise TranslateError('_slot_answers: subscripts `stored` while it may be None')
            if 'stored' in names and isinstance(op, (ast.Eq, ast.NotEq)) and \
                    ((isinstance(l, ast.Name) and l.id == 'stored' and self.is_tup(r)) or
                     (isinstance(r, ast.Name) and r.id == 'stored' and self.is_tup(l))):
                return isinstance(op, ast.NotEq)        # None == <tuple> is False
        if any(isinstance(x, ast.Name) and x.id == 'stored' for x in ast.walk(n)):
            raise TranslateError(f'_slot_answers: uses `stored` while it may be None: {ast.unparse(n)!r}')
        raise _Unknown(ast.unparse(n))


def slot_answers(fn):
    params = [a.arg for a in fn.args.args]
    if params != ['self', 'key', 'options']:
        raise TranslateError(f'_slot_answers: parameters {params}')
    body = [s for s in fn.body if not (isinstance(s, ast.Expr) and isinstance(s.value, ast.Constant))]
    if not body or ast.unparse(body[0]) != "stored = getattr(self.elemental_data[key], 'options', None)":
        raise TranslateError('_slot_answers: first statement')
    sx = SlotExpr()

    def chain(stmts):
        if not stmts:
            raise TranslateError('_slot_answers: falls off the end (returns None)')
        s = stmts[0]
        if isinstance(s, ast.Return) and s.value is not None:
            return ('ret', s.value)
        if isinstance(s, ast.If):
            rest = list(s.orelse) + list(stmts[1:]) if not _always_returns(s.orelse) else list(s.orelse)
            return ('ite', s.test, chain(list(s.body) + list(stmts[1:])), chain(rest))
        raise TranslateError(f'_slot_answers: statement {ast.unparse(s)!r}')

    def _always_returns(stmts):
        return bool(stmts) and isinstance(stmts[-1], ast.Return)

    tree = chain(body[1:])

    def gallina(t):
        if t[0] == 'ret':
            return sx.boolean(t[1])
        return f'(if {sx.boolean(t[1])} then {gallina(t[2])} else {gallina(t[3])})'

    def none_value(t):
        if t[0] == 'ret':
            return sx.when_none(t[1])
        return none_value(t[2]) if sx.when_none(t[1]) else none_value(t[3])
    try:
        unowned = none_value(tree)
    except _Unknown as e:
        raise TranslateError(f'_slot_answers: answer for entries without options depends on {e}')
    return {'unowned': bool(unowned), 'expr': gallina(tree)}


def _kwdefaults(fn):
    return {a.arg: d for a, d in zip(fn.args.kwonlyargs, fn.args.kw_defaults) if d is not None}


def slot_user(fn, key, names):
    """calculate_element_metrics / _volumes: the options tuple given to _slot_answers and
    to _store_slot (same tuple, made of the function's own option parameters), and the
    shape of the early answer from the stored entry"""
    tuples = []
    for n in ast.walk(fn):
        if isinstance(n, ast.Call) and isinstance(n.func, ast.Attribute) and \
                isinstance(n.func.value, ast.Name) and n.func.value.id == 'self':
            if n.func.attr == '_slot_answers' and len(n.args) == 2 and \
                    isinstance(n.args[0], ast.Constant) and n.args[0].value == key:
                tuples.append(('answers', n.args[1]))
            if n.func.attr == '_store_slot' and len(n.args) == 4 and \
                    isinstance(n.args[1], ast.Constant) and n.args[1].value == key:
                tuples.append(('store', n.args[3]))
    if sorted(k for k, _ in tuples) != ['answers', 'store']:
        raise TranslateError(f'{fn.name}: expected one _slot_answers and one _store_slot for {key!r}')
    orders = []
    for _, t in tuples:
        if not (isinstance(t, ast.Tuple) and all(isinstance(e, ast.Name) for e in t.elts)):
            raise TranslateError(f'{fn.name}: options tuple {ast.unparse(t)!r}')
        orders.append([e.id for e in t.elts])
    if orders[0] != orders[1] or sorted(orders[0]) != sorted(names):
        raise TranslateError(f'{fn.name}: options tuples {orders}')
    rz, ab = [x for x in names if x.startswith('raise_')][0], [x for x in names if x.startswith('return_')][0]
    want = (f"if {key!r} in self.elemental_data and self._slot_answers({key!r}, ({', '.join(orders[0])})):\n"
            f"    return self._validate_metric(self.elemental_data.get_attribute_data({key!r}), "
            f"raise_negative_metric={rz}, return_abs_metric={ab})")
    hits = [n for n in ast.walk(fn) if isinstance(n, ast.If) and ast.unparse(n.test).startswith(f'{key!r} in self.elemental_data')]
    if len(hits) != 1 or ast.unparse(ast.If(test=hits[0].test, body=hits[0].body, orelse=[])) != want \
            or hits[0].orelse:
        raise TranslateError(f'{fn.name}: early answer from the stored {key!r} entry is not the modelled one')
    # the store: validated values, only for the object's own element table
    src = ast.unparse(fn)
    val = {'metric': 'metrics', 'volume': 'volumes'}[key]
    for need in (f'{val} = self._validate_metric({val}, raise_negative_metric={rz}, return_abs_metric={ab})',
                 'if update and elements is self.elements:'):
        if src.count(need) != 1:
            raise TranslateError(f'{fn.name}: expected {need!r}')
    return orders[0]


VALIDATE_BODY = ['if raise_negative_metric and np.any(metric < 0.0):\n'
                 "    raise ValueError(f'Negative metric found: {metric[metric < 0]}')",
                 'if return_abs_metric:\n    metric = np.abs(metric)',
                 'return metric']


def slots(gcls, mp_fn):
    _, mp_tail = positive_parts(mp_fn, gcls)
    sa = slot_answers(_method(gcls, '_slot_answers'))
    vm = _method(gcls, '_validate_metric')
    if [ast.unparse(s) for s in vm.body] != VALIDATE_BODY:
        raise TranslateError('_validate_metric: body differs from the modelled one')
    st = _method(gcls, '_store_slot')
    need = ['self.elemental_data.update_data(ids, {key: values}, **kwargs)',
            'self.elemental_data[key].options = options']
    if [ast.unparse(s) for s in st.body[-3:-1]] != need:
        raise TranslateError('_store_slot: body differs from the modelled one')
    cm, cv = _method(gcls, 'calculate_element_metrics'), _method(gcls, 'calculate_element_volumes')
    mo = slot_user(cm, 'metric', ['raise_negative_metric', 'return_abs_metric'])
    vo = slot_user(cv, 'volume', ['mode', 'raise_negative_volume', 'return_abs_volume'])
    dm, dv = _kwdefaults(cm), _kwdefaults(cv)
    mode = dv.get('mode')
    if not (isinstance(mode, ast.Constant) and isinstance(mode.value, str)):
        raise TranslateError('calculate_element_volumes: default mode')
    deleg = ('self.calculate_element_volumes(raise_negative_volume=raise_negative_metric, '
             'return_abs_volume=return_abs_metric, elements=elements, update=update)')
    if ast.unparse(cm).count(deleg) != 1:
        raise TranslateError('calculate_element_metrics: delegation to calculate_element_volumes')
    # make_elements_positive: the query it makes
    stmts = [s for s in mp_fn.body if not (isinstance(s, ast.Expr) and isinstance(s.value, ast.Constant))]
    call = None
    s0 = stmts[0]
    if isinstance(s0, ast.Assign) and isinstance(s0.value, ast.Subscript) and \
            isinstance(s0.value.value, ast.Call) and \
            ast.unparse(s0.value.value.func) == 'self.calculate_element_metrics' and \
            ast.unparse(s0.value.slice) == '(:, 0)':
        call = s0.value.value
    if call is None or call.args:
        raise TranslateError('make_elements_positive: metric query')
    q = {}
    for nm in ('raise_negative_metric', 'return_abs_metric'):
        d = dm.get(nm)
        for kw in call.keywords:
            if kw.arg == nm:
                d = kw.value
        if not (isinstance(d, ast.Constant) and isinstance(d.value, bool)):
            raise TranslateError(f'make_elements_positive: value of {nm}')
        q[nm] = d.value
    if {kw.arg for kw in call.keywords} - set(q):
        raise TranslateError('make_elements_positive: other arguments in the metric query')
    # what it removes after the write-back
    clears = None
    for s in mp_tail:
        if isinstance(s, ast.For) and isinstance(s.iter, (ast.Tuple, ast.List)) and \
                all(isinstance(e, ast.Constant) and isinstance(e.value, str) for e in s.iter.elts) and \
                isinstance(s.target, ast.Name) and \
                ast.unparse(s.body) == (f'if {s.target.id} in self.elemental_data:\n'
                                        f'    self.elemental_data.pop({s.target.id})'):
            clears = (clears or []) + [e.value for e in s.iter.elts]
        elif isinstance(s, ast.If) and not s.orelse and len(s.body) == 1:
            m = re.fullmatch(r"'(\w+)' in self\.elemental_data", ast.unparse(s.test))
            if m and ast.unparse(s.body[0]) == f"self.elemental_data.pop('{m.group(1)}')":
                clears = (clears or []) + [m.group(1)]
    if clears is None:
        raise TranslateError('make_elements_positive: removal of the stored entries not recognised')
    return {'answers': sa, 'metric_order': mo, 'volume_order': vo, 'default_mode': mode.value,
            'positive_query': [q['raise_negative_metric'], q['return_abs_metric']], 'clears': clears}


BASELINE = Path(__file__).resolve().parent / 'c18_baseline.json'
KERNEL_TYPES = ['tet', 'hex', 'prism', 'pyr']


def translate(repo, degrade=True):
    """Region by region.  A region the grammar cannot read does not stop the run
    (degrade=True): its part of the model is taken from the committed baseline
    (the translation of the registered tree, translate/c18_baseline.json) and the
    region is listed in model['degraded'] with the reason; the harness then ties
    that region by a widened correspondence instead (tie H instead of T)."""
    repo = Path(repo)
    fsrc = (repo / 'femio' / 'fem_data.py').read_text()
    gsrc = (repo / 'femio' / 'geometry_processor.py').read_text()
    ftree, gtree = ast.parse(fsrc), ast.parse(gsrc)
    cls = [n for n in ftree.body if isinstance(n, ast.ClassDef) and n.name == 'FEMData']
    gcls = [n for n in gtree.body if isinstance(n, ast.ClassDef) and n.name == 'GeometryProcessorMixin']
    if len(cls) != 1 or len(gcls) != 1:
        raise TranslateError('class FEMData / GeometryProcessorMixin not found')
    cls, gcls = cls[0], gcls[0]
    base = json.loads(BASELINE.read_text()) if BASELINE.exists() else None
    consumed, degraded = {}, {}
    model = {'kernels': {}}

    def region(name, fn, sources):
        """sources: [(label, src, node getter)]"""
        try:
            val = fn()
        except (TranslateError, SyntaxError, IndexError, KeyError, AttributeError) as e:
            if not degrade or base is None:
                raise TranslateError(f'{name}: {e}')
            degraded[name] = str(e)[:300]
            val = None
        for label, src, get in sources:
            try:
                consumed[label] = sha(ast.get_source_segment(src, get()))
            except TranslateError:
                consumed[label] = 'missing'
        return val

    disp = region('to_polyhedron', lambda: to_polyhedron(_method(cls, 'to_polyhedron'), cls),
                  [('fem_data.py:to_polyhedron', fsrc, lambda: _method(cls, 'to_polyhedron'))])
    if disp is None:
        disp = {ty: (base['kernels'][ty]['kernel'], base['kernels'][ty]['int32'])
                for ty in KERNEL_TYPES if ty in base['kernels']}
    for ty, (kname, wrap32) in disp.items():
        k = region(kname, lambda: poly_kernel(_method(cls, kname)),
                   [('fem_data.py:' + kname, fsrc, lambda: _method(cls, kname))])
        if k is None:
            if ty not in base['kernels']:
                raise TranslateError(f'{kname}: no baseline for type {ty}')
            k = {x: base['kernels'][ty][x] for x in ('arity', 'uses_argsort', 'faces')}
        k['int32'] = wrap32
        k['kernel'] = kname
        model['kernels'][ty] = k
    pats = region('resolve_degeneracy', lambda: resolve_degeneracy_any(_method(cls, 'resolve_degeneracy'), _module_consts(ftree)),
                  [('fem_data.py:resolve_degeneracy', fsrc, lambda: _method(cls, 'resolve_degeneracy'))])
    model['patterns'] = pats if pats is not None else base['patterns']
    pm = region('_permute', lambda: permute(_method(gcls, '_permute'), _module_consts(gtree)),
                [('geometry_processor.py:_permute', gsrc, lambda: _method(gcls, '_permute'))])
    model['permute_tet'] = pm if pm is not None else base['permute_tet']
    region('make_elements_positive', lambda: make_positive(_method(gcls, 'make_elements_positive'), gcls),
           [('geometry_processor.py:make_elements_positive', gsrc,
             lambda: _method(gcls, 'make_elements_positive'))])
    sl = region('slots', lambda: slots(gcls, _method(gcls, 'make_elements_positive')),
                [('geometry_processor.py:' + n, gsrc, (lambda n=n: _method(gcls, n)))
                 for n in ('_slot_answers', '_validate_metric', '_store_slot')])
    model['slots'] = sl if sl is not None else base['slots']
    model['degraded'] = degraded
    return model, consumed


def nl(xs):
    return '[' + '; '.join(str(int(x)) for x in xs) + ']'


def emit(model):
    out = ['(* GENERATED by translate/c18_tables.py from femio/fem_data.py and',
           '   femio/geometry_processor.py.  Do not edit: regenerated on every run of ./check C18. *)',
           'From Coq Require Import List String.', 'Import ListNotations.', 'Open Scope string_scope.', '']
    for ty, k in model['kernels'].items():
        out.append(f'(* {ty}_to_polyhedron *)')
        out.append(f'Definition poly_faces_{ty} : list (list nat) :=')
        out.append('  [' + '; '.join(nl(f) for f in k['faces']) + '].')
        out.append(f"Definition poly_arity_{ty} : nat := {k['arity']}.")
        out.append(f"Definition poly_uses_argsort_{ty} : bool := {'true' if k['uses_argsort'] else 'false'}.")
        out.append(f"Definition poly_casts_int32_{ty} : bool := {'true' if k['int32'] else 'false'}.")
    rows = [f'("{ty}", ({"true" if k["uses_argsort"] else "false"}, ({k["arity"]}, poly_faces_{ty})))'
            for ty, k in model['kernels'].items()]
    out.append('Definition poly_kernels : list (string * (bool * (nat * list (list nat)))) :=')
    out.append('  [' + ';\n   '.join(rows) + '].')
    rows = [f'("{ty}", {"true" if k["int32"] else "false"})' for ty, k in model['kernels'].items()]
    out.append('(* to_polyhedron casts the connectivity row with astype(np.int32) before the lookup *)')
    out.append('Definition poly_casts_int32 : list (string * bool) := [' + '; '.join(rows) + '].')
    out.append('')
    out.append('(* resolve_degeneracy: (collapsed columns, companion columns, prism node order), in the')
    out.append('   order in which the converted elements are appended to the prism block *)')
    rows = [f'(({p["equal"][0]}, {p["equal"][1]}), (({p["required"][0]}, {p["required"][1]}), {nl(p["perm"])}))'
            for p in model['patterns']]
    out.append('Definition degeneracy_patterns : list ((nat * nat) * ((nat * nat) * list nat)) :=')
    out.append('  [' + ';\n   '.join(rows) + '].')
    out.append('')
    out.append('(* _permute, tet *)')
    out.append(f"Definition permute_tet : list nat := {nl(model['permute_tet'])}.")
    return '\n'.join(out) + '\n'


def emit_slots(model):
    sl = model['slots']
    b = lambda x: 'true' if x else 'false'   # noqa
    ty = {'mode': 'OS mode'}
    mo = '; '.join(ty.get(n, f'OB {n}') for n in sl['metric_order'])
    vo = '; '.join(ty.get(n, f'OB {n}') for n in sl['volume_order'])
    return '\n'.join([
        '(* GENERATED by translate/c18_tables.py from femio/geometry_processor.py.',
        '   Do not edit: regenerated on every run of ./check C18. *)',
        'From Coq Require Import List String Bool.', 'Import ListNotations.',
        'From FV.C18 Require Import SlotBase.', 'Open Scope string_scope.', '',
        '(* _slot_answers: entry without options, i.e. not stored by the calculate_element methods *)',
        f"Definition slot_answers_unowned : bool := {b(sl['answers']['unowned'])}.",
        '(* _slot_answers: entry stored with the options tuple `stored` *)',
        'Definition slot_answers (stored options : list oval) : bool :=',
        f"  {sl['answers']['expr']}.",
        '(* the options tuples of calculate_element_metrics / calculate_element_volumes *)',
        'Definition metric_opts (raise_negative_metric return_abs_metric : bool) : list oval :=',
        f'  [{mo}].',
        'Definition volume_opts (mode : string) (raise_negative_volume return_abs_volume : bool) : list oval :=',
        f'  [{vo}].',
        f'Definition volume_default_mode : string := "{sl["default_mode"]}".',
        '(* make_elements_positive: calculate_element_metrics(raise_negative_metric, return_abs_metric) *)',
        f"Definition positive_query : bool * bool := ({b(sl['positive_query'][0])}, {b(sl['positive_query'][1])}).",
        '(* entries removed from elemental_data after the write-back *)',
        'Definition positive_clears : list string := [' + '; '.join(f'"{c}"' for c in sl['clears']) + '].',
    ]) + '\n'


if __name__ == '__main__':
    import sys
    if len(sys.argv) > 2 and sys.argv[2] == '--write-baseline':
        m, c = translate(sys.argv[1], degrade=False)
        BASELINE.write_text(json.dumps(m, indent=1, sort_keys=True) + '\n')
        sys.exit(0)
    m, c = translate(sys.argv[1] if len(sys.argv) > 1 else '/repo')
    sys.stdout.write(emit(m))
    sys.stdout.write(emit_slots(m))
    sys.stderr.write(json.dumps(m['degraded'], indent=1) + '\n')
