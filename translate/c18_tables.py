"""Fail-closed translator for C18: the tables of the re-typing code.

  femio/fem_data.py    {tet,hex,prism,pyr}_to_polyhedron  -> face lists (local node
                        indices) and whether the sorted rank is translated back to the
                        storage position with argsort[...];
                        to_polyhedron                      -> type -> kernel dispatch;
                        resolve_degeneracy                 -> the four collapse patterns
                        (equal columns, required equal columns, prism node order)
  femio/geometry_processor.py  _permute / make_elements_positive -> tet permutation

Everything that is not exactly of the expected shape raises TranslateError."""
import ast
import hashlib
import re
from pathlib import Path


class TranslateError(Exception):
    pass


def sha(s):
    return hashlib.sha256(s.encode()).hexdigest()


def _method(cls, name):
    fs = [n for n in cls.body if isinstance(n, ast.FunctionDef) and n.name == name]
    if len(fs) != 1:
        raise TranslateError(f'{name}: found {len(fs)} definitions')
    return fs[0]


FACE_TAIL = ['face_dat = [len(faces)]',
             'for F in faces:\n    face_dat.append(len(F))\n    face_dat += F',
             'return face_dat']


def poly_kernel(fn):
    params = [a.arg for a in fn.args.args]
    if params != ['dat', 'node_ids', 'argsort']:
        raise TranslateError(f'{fn.name}: parameters {params}')
    body = [s for s in fn.body if not (isinstance(s, ast.Expr) and isinstance(s.value, ast.Constant))]
    if len(body) != 5:
        raise TranslateError(f'{fn.name}: unexpected body length {len(body)}')
    s0 = body[0]
    if not (isinstance(s0, ast.Assign) and len(s0.targets) == 1 and
            isinstance(s0.targets[0], ast.Tuple) and
            all(isinstance(e, ast.Name) for e in s0.targets[0].elts)):
        raise TranslateError(f'{fn.name}: first statement is not a tuple unpacking')
    names = [e.id for e in s0.targets[0].elts]
    if len(set(names)) != len(names):
        raise TranslateError(f'{fn.name}: repeated local name')
    rhs = ast.unparse(s0.value)
    if rhs == 'argsort[np.searchsorted(node_ids, dat)]':
        uses_argsort = True
    elif rhs == 'np.searchsorted(node_ids, dat)':
        uses_argsort = False
    else:
        raise TranslateError(f'{fn.name}: unexpected index expression {rhs}')
    s1 = body[1]
    if not (isinstance(s1, ast.Assign) and len(s1.targets) == 1 and
            isinstance(s1.targets[0], ast.Name) and s1.targets[0].id == 'faces' and
            isinstance(s1.value, ast.List)):
        raise TranslateError(f'{fn.name}: faces = [[...]] expected')
    faces = []
    for f in s1.value.elts:
        if not (isinstance(f, ast.List) and all(isinstance(e, ast.Name) for e in f.elts)):
            raise TranslateError(f'{fn.name}: a face is not a list of names')
        try:
            faces.append([names.index(e.id) for e in f.elts])
        except ValueError:
            raise TranslateError(f'{fn.name}: face uses an unknown name')
    for s, want in zip(body[2:], FACE_TAIL):
        if ast.unparse(s) != want:
            raise TranslateError(f'{fn.name}: unexpected statement {ast.unparse(s)!r}')
    return {'arity': len(names), 'uses_argsort': uses_argsort, 'faces': faces}


def to_polyhedron(fn):
    src = ast.unparse(fn)
    need = ['node_ids = self.nodes.ids', 'argsort = node_ids.argsort()',
            'node_ids = node_ids[argsort]', 'elements = self.elements.data',
            'types = np.unique(self.elements.types)',
            'indices = np.where(self.elements.types == tp)[0]']
    for n in need:
        if src.count(n) != 1:
            raise TranslateError(f'to_polyhedron: expected exactly one {n!r}')
    loops = [s for s in fn.body if isinstance(s, ast.For)]
    if not loops or ast.unparse(loops[0].target) != 'tp' or ast.unparse(loops[0].iter) != 'types':
        raise TranslateError('to_polyhedron: type loop not found')
    chain = [s for s in loops[0].body if isinstance(s, ast.If)]
    if len(chain) != 1:
        raise TranslateError('to_polyhedron: type chain not found')
    node = chain[0]
    disp = {}
    while True:
        t = node.test
        if not (isinstance(t, ast.Compare) and isinstance(t.left, ast.Name) and t.left.id == 'tp' and
                len(t.ops) == 1 and isinstance(t.ops[0], ast.Eq) and
                isinstance(t.comparators[0], ast.Constant)):
            raise TranslateError('to_polyhedron: unexpected test')
        ty = t.comparators[0].value
        body = ast.unparse(node.body)
        if ty == 'polyhedron':
            if body != 'pass':
                raise TranslateError('to_polyhedron: polyhedron branch is not pass')
        else:
            for bits in ('int32', 'int64'):
                want = (f'for i in indices:\n    face_dat[i] = self.{ty}_to_polyhedron('
                        f'elements[i].astype(np.{bits}), node_ids, argsort)')
                if body == want:
                    break
            else:
                raise TranslateError(f'to_polyhedron: unexpected branch for {ty}: {body!r}')
            disp[ty] = (f'{ty}_to_polyhedron', bits == 'int32')
        if len(node.orelse) == 1 and isinstance(node.orelse[0], ast.If):
            node = node.orelse[0]
            continue
        if not (len(node.orelse) == 1 and isinstance(node.orelse[0], ast.Raise)):
            raise TranslateError('to_polyhedron: chain must end in raise')
        break
    tail = ["polyhedron = FEMAttribute('polyhedron', ids=self.elements.ids, data=self.elements.data)",
            "elements = FEMElementalAttribute('ELEMENT', {'polyhedron': polyhedron})",
            "face = FEMElementalAttribute('face', {'polyhedron': FEMAttribute('face', "
            "ids=self.elements.ids, data=face_dat)})"]
    for n in tail:
        if src.count(n) != 1:
            raise TranslateError(f'to_polyhedron: expected {n!r}')
    return disp


def _col(node, base):
    """base[:, k] -> k"""
    if isinstance(node, ast.Subscript) and isinstance(node.value, ast.Name) and node.value.id == base \
            and isinstance(node.slice, ast.Tuple) and len(node.slice.elts) == 2 and \
            isinstance(node.slice.elts[0], ast.Slice) and isinstance(node.slice.elts[1], ast.Constant):
        return node.slice.elts[1].value
    return None


def resolve_degeneracy(fn):
    src = ast.unparse(fn)
    eq = {}
    for s in fn.body:
        if isinstance(s, ast.Assign) and len(s.targets) == 1 and isinstance(s.targets[0], ast.Name) \
                and s.targets[0].id.startswith('equal_'):
            v = s.value
            if not (isinstance(v, ast.Compare) and len(v.ops) == 1 and isinstance(v.ops[0], ast.Eq)):
                raise TranslateError('resolve_degeneracy: unexpected equal_ definition')
            a, b = _col(v.left, 'hex_data'), _col(v.comparators[0], 'hex_data')
            if a is None or b is None:
                raise TranslateError('resolve_degeneracy: unexpected equal_ definition')
            eq[s.targets[0].id] = (a, b)
    if len(eq) != 4:
        raise TranslateError(f'resolve_degeneracy: {len(eq)} collapse tests')
    # required companions:  np.all(hex_data[equal_01, 4] == hex_data[equal_01, 5])
    req = {}
    for n in ast.walk(fn):
        if isinstance(n, ast.Call) and ast.unparse(n.func) == 'np.all' and len(n.args) == 1 and \
                isinstance(n.args[0], ast.Compare):
            c = n.args[0]
            l, r = c.left, c.comparators[0]

            def parse(x):
                if isinstance(x, ast.Subscript) and isinstance(x.value, ast.Name) and \
                        x.value.id == 'hex_data' and isinstance(x.slice, ast.Tuple) and \
                        isinstance(x.slice.elts[0], ast.Name) and isinstance(x.slice.elts[1], ast.Constant):
                    return x.slice.elts[0].id, x.slice.elts[1].value
                return None
            pl, pr = parse(l), parse(r)
            if pl is None or pr is None or pl[0] != pr[0] or pl[0] not in eq:
                raise TranslateError('resolve_degeneracy: unexpected np.all test')
            req[pl[0]] = (pl[1], pr[1])
    if set(req) != set(eq):
        raise TranslateError('resolve_degeneracy: companion tests do not cover the four patterns')
    if src.count('nondegenerate = ~(equal_01 | equal_12 | equal_23 | equal_30)') != 1:
        raise TranslateError('resolve_degeneracy: nondegenerate mask')
    # prism_ids / prism_data concatenations
    ids_order, perms = None, None
    for s in fn.body:
        if isinstance(s, ast.Assign) and len(s.targets) == 1 and isinstance(s.targets[0], ast.Name):
            nm = s.targets[0].id
            v = s.value
            if nm in ('prism_ids', 'prism_data') and isinstance(v, ast.Call) and \
                    ast.unparse(v.func) == 'np.concatenate' and isinstance(v.args[0], ast.List):
                items = v.args[0].elts
                if ast.unparse(items[0]) != nm:
                    raise TranslateError('resolve_degeneracy: concatenation must start with the old block')
                if nm == 'prism_ids':
                    ids_order = []
                    for it in items[1:]:
                        if not (isinstance(it, ast.Subscript) and ast.unparse(it.value) == 'hex_ids'
                                and isinstance(it.slice, ast.Name)):
                            raise TranslateError('resolve_degeneracy: prism_ids item')
                        ids_order.append(it.slice.id)
                else:
                    perms = []
                    for it in items[1:]:
                        # hex_data[equal_01][:, [0, 3, 2, 4, 7, 6]]
                        if not (isinstance(it, ast.Subscript) and isinstance(it.value, ast.Subscript)
                                and ast.unparse(it.value.value) == 'hex_data'
                                and isinstance(it.value.slice, ast.Name)
                                and isinstance(it.slice, ast.Tuple)
                                and isinstance(it.slice.elts[1], ast.List)):
                            raise TranslateError('resolve_degeneracy: prism_data item')
                        perm = [e.value for e in it.slice.elts[1].elts]
                        perms.append((it.value.slice.id, perm))
    if ids_order is None or perms is None or [p[0] for p in perms] != ids_order or \
            sorted(ids_order) != sorted(eq):
        raise TranslateError('resolve_degeneracy: id / data concatenations do not match')
    for n in ['IDX = np.argsort(prism_ids)', 'prism_ids = prism_ids[IDX]', 'prism_data = prism_data[IDX]',
              'hex_ids = hex_ids[nondegenerate]', 'hex_data = hex_data[nondegenerate]']:
        if src.count(n) != 1:
            raise TranslateError(f'resolve_degeneracy: expected {n!r}')
    return [{'name': nm, 'equal': eq[nm], 'required': req[nm], 'perm': perm} for nm, perm in perms]


def permute(fn):
    src = ast.unparse(fn)
    want = ("elif self.elements.element_type == 'tet':\n"
            "    return np.stack([elements[:, 0], elements[:, 2], elements[:, 1], elements[:, 3]], axis=-1)")
    # extract the stack generally
    for n in ast.walk(fn):
        if isinstance(n, ast.If) and ast.unparse(n.test) == "self.elements.element_type == 'tet'":
            if len(n.body) == 1 and isinstance(n.body[0], ast.Return):
                v = n.body[0].value
                if isinstance(v, ast.Call) and ast.unparse(v.func) == 'np.stack' and \
                        isinstance(v.args[0], ast.List):
                    cols = [_col(e, 'elements') for e in v.args[0].elts]
                    if None in cols:
                        raise TranslateError('_permute: unexpected column expression')
                    return cols
    raise TranslateError('_permute: tet branch not found')


def make_positive(fn):
    """Strict on the statements that decide WHAT is permuted (metric, cond, the
    early return, the permutation of exactly the rows in cond, the write-back);
    after the write-back any bookkeeping is accepted as long as it cannot touch
    the mesh: no use of elements / cond / metric, no access to self.elements or
    self.nodes, no raise, no return of a value."""
    stmts = [s for s in fn.body
             if not (isinstance(s, ast.Expr) and isinstance(s.value, ast.Constant))]
    core = ['metric = self.calculate_element_metrics(raise_negative_metric=False)[:, 0]',
            'cond = metric < 0',
            'if np.sum(cond) == 0:\n    return',
            'elements = self.elements.data',
            'elements[cond] = self._permute(self.elements.data[cond])',
            'self.elements.data = elements']
    if [ast.unparse(s) for s in stmts[:6]] != core:
        raise TranslateError('make_elements_positive: the statements computing cond / permuting '
                             'rows / writing back differ from the modelled ones')
    for st in stmts[6:]:
        for n in ast.walk(st):
            bad = (isinstance(n, ast.Name) and n.id in ('elements', 'cond', 'metric')) or \
                  (isinstance(n, ast.Attribute) and n.attr in ('elements', 'nodes') and
                   isinstance(n.value, ast.Name) and n.value.id == 'self') or \
                  isinstance(n, ast.Raise) or (isinstance(n, ast.Return) and n.value is not None)
            if bad:
                raise TranslateError('make_elements_positive: statement after the write-back '
                                     f'touches the mesh: {ast.unparse(st)!r}')
    return True


def translate(repo):
    repo = Path(repo)
    fsrc = (repo / 'femio' / 'fem_data.py').read_text()
    ftree = ast.parse(fsrc)
    cls = [n for n in ftree.body if isinstance(n, ast.ClassDef) and n.name == 'FEMData']
    if len(cls) != 1:
        raise TranslateError('class FEMData not found')
    cls = cls[0]
    consumed = {}
    disp = to_polyhedron(_method(cls, 'to_polyhedron'))
    consumed['fem_data.py:to_polyhedron'] = sha(ast.get_source_segment(fsrc, _method(cls, 'to_polyhedron')))
    kernels = {}
    for ty, (kname, wrap32) in disp.items():
        fn = _method(cls, kname)
        kernels[ty] = poly_kernel(fn)
        kernels[ty]['int32'] = wrap32
        consumed['fem_data.py:' + kname] = sha(ast.get_source_segment(fsrc, fn))
    rd = _method(cls, 'resolve_degeneracy')
    patterns = resolve_degeneracy(rd)
    consumed['fem_data.py:resolve_degeneracy'] = sha(ast.get_source_segment(fsrc, rd))
    gsrc = (repo / 'femio' / 'geometry_processor.py').read_text()
    gtree = ast.parse(gsrc)
    gcls = [n for n in gtree.body if isinstance(n, ast.ClassDef) and n.name == 'GeometryProcessorMixin'][0]
    pm = permute(_method(gcls, '_permute'))
    make_positive(_method(gcls, 'make_elements_positive'))
    consumed['geometry_processor.py:_permute'] = sha(ast.get_source_segment(gsrc, _method(gcls, '_permute')))
    consumed['geometry_processor.py:make_elements_positive'] = \
        sha(ast.get_source_segment(gsrc, _method(gcls, 'make_elements_positive')))
    return {'kernels': kernels, 'patterns': patterns, 'permute_tet': pm}, consumed


def nl(xs):
    return '[' + '; '.join(str(int(x)) for x in xs) + ']'


def emit(model):
    out = ['(* GENERATED by translate/c18_tables.py from femio/fem_data.py and',
           '   femio/geometry_processor.py.  Do not edit: regenerated on every run of ./check C18. *)',
           'From Coq Require Import List String.', 'Import ListNotations.', 'Open Scope string_scope.', '']
    for ty, k in model['kernels'].items():
        out.append(f'(* {ty}_to_polyhedron *)')
        out.append(f'Definition poly_faces_{ty} : list (list nat) :=')
        out.append('  [' + '; '.join(nl(f) for f in k['faces']) + '].')
        out.append(f"Definition poly_arity_{ty} : nat := {k['arity']}.")
        out.append(f"Definition poly_uses_argsort_{ty} : bool := {'true' if k['uses_argsort'] else 'false'}.")
        out.append(f"Definition poly_casts_int32_{ty} : bool := {'true' if k['int32'] else 'false'}.")
    rows = [f'("{ty}", ({"true" if k["uses_argsort"] else "false"}, ({k["arity"]}, poly_faces_{ty})))'
            for ty, k in model['kernels'].items()]
    out.append('Definition poly_kernels : list (string * (bool * (nat * list (list nat)))) :=')
    out.append('  [' + ';\n   '.join(rows) + '].')
    rows = [f'("{ty}", {"true" if k["int32"] else "false"})' for ty, k in model['kernels'].items()]
    out.append('(* to_polyhedron casts the connectivity row with astype(np.int32) before the lookup *)')
    out.append('Definition poly_casts_int32 : list (string * bool) := [' + '; '.join(rows) + '].')
    out.append('')
    out.append('(* resolve_degeneracy: (collapsed columns, companion columns, prism node order), in the')
    out.append('   order in which the converted elements are appended to the prism block *)')
    rows = [f'(({p["equal"][0]}, {p["equal"][1]}), (({p["required"][0]}, {p["required"][1]}), {nl(p["perm"])}))'
            for p in model['patterns']]
    out.append('Definition degeneracy_patterns : list ((nat * nat) * ((nat * nat) * list nat)) :=')
    out.append('  [' + ';\n   '.join(rows) + '].')
    out.append('')
    out.append('(* _permute, tet *)')
    out.append(f"Definition permute_tet : list nat := {nl(model['permute_tet'])}.")
    return '\n'.join(out) + '\n'


if __name__ == '__main__':
    import sys
    m, c = translate(sys.argv[1] if len(sys.argv) > 1 else '/repo')
    sys.stdout.write(emit(m))
