"""C13 — fail-closed `ast` translator of the DECISIONS of the graph-matrix code:

* which adjacency method each graph function calls for mode='nodal' /
  'elemental' and whether it forwards `order1_only`
  (femio/graph_processor.py: calculate_adjacency_matrix, calculate_laplacian_matrix,
  calculate_edge_gradient_matrix, calculate_n_hop_adj, calculate_e2v_matrix);
* the first-order table of FEMElementalAttribute._to_first_order
  ('2' not in type -> unchanged; tet2 -> 4 columns; hex2 -> 8; otherwise raise);
* FEMElementalAttribute.ELEMENT_TYPES (evaluated literal).

Reads MEANING, not spelling: `if/elif/else` chains and early-return guard
chains on `mode == '<literal>'`, one or two levels of private helpers of the
same class (parameters bound by position / keyword), `getattr(self, TABLE[mode])`
with a module-level dict literal and an `if mode not in TABLE: raise` guard,
keyword or positional forwarding, renamed locals.  Anything else -> `Unreadable`
(the harness then degrades the tie of this region to H: committed baseline
model + the correspondence streams; never a violation by itself).

    translate(repo) -> {'dispatch': [(function, nodal?, callee_nodal?, forwards)],
                        'first_order': [(type, n_columns)], 'element_types': [...]}
    to_coq(decisions) -> text of coq/C13/gen/Decisions.v
"""
import ast
from pathlib import Path

FUNCS = ['calculate_adjacency_matrix', 'calculate_laplacian_matrix',
         'calculate_edge_gradient_matrix', 'calculate_n_hop_adj', 'calculate_e2v_matrix']
CALLEES = {'calculate_adjacency_matrix_node': True, 'calculate_adjacency_matrix_element': False}
MODES = {'nodal': True, 'elemental': False}


class Unreadable(Exception):
    pass


class Raises(Exception):
    """the walked path ends in a `raise`"""


def _const_str(n):
    return n.value if isinstance(n, ast.Constant) and isinstance(n.value, str) else None


class Walker:
    """follows ONE concrete value of `mode` through a function body and returns the
    first adjacency call reached: (callee_nodal, forwards_order1)"""

    def __init__(self, cls_funcs, module_consts):
        self.funcs = cls_funcs
        self.consts = module_consts

    # env: name -> ('mode', str) | ('o1',) | ('callee', bool) | ('other',)
    def test(self, node, env):
        """truth value of a test under env, or None if it does not depend on mode only"""
        if isinstance(node, ast.Compare) and len(node.ops) == 1:
            l, r, op = node.left, node.comparators[0], node.ops[0]
            lv, rv = self.strval(l, env), self.strval(r, env)
            if lv is not None and rv is not None:
                if isinstance(op, ast.Eq):
                    return lv == rv
                if isinstance(op, ast.NotEq):
                    return lv != rv
            if lv is not None and isinstance(op, (ast.In, ast.NotIn)):
                keys = self.keys_of(r)
                if keys is not None:
                    return (lv in keys) == isinstance(op, ast.In)
        if isinstance(node, ast.UnaryOp) and isinstance(node.op, ast.Not):
            v = self.test(node.operand, env)
            return None if v is None else not v
        return None

    def strval(self, n, env):
        s = _const_str(n)
        if s is not None:
            return s
        if isinstance(n, ast.Name) and env.get(n.id, ('other',))[0] == 'mode':
            return env[n.id][1]
        return None

    def keys_of(self, n):
        if isinstance(n, ast.Name) and n.id in self.consts:
            n = self.consts[n.id]
        if isinstance(n, ast.Dict) and all(_const_str(k) is not None for k in n.keys):
            return [k.value for k in n.keys]
        if isinstance(n, (ast.Tuple, ast.List, ast.Set)) and all(_const_str(e) is not None
                                                                 for e in n.elts):
            return [e.value for e in n.elts]
        return None

    def method_name(self, f, env):
        """name of the method of self a call's func denotes, or None"""
        if isinstance(f, ast.Attribute) and isinstance(f.value, ast.Name) and f.value.id == 'self':
            return f.attr
        if isinstance(f, ast.Name) and env.get(f.id, ('other',))[0] == 'method':
            return env[f.id][1]
        if isinstance(f, ast.Call):
            return self.getattr_name(f, env)
        return None

    def getattr_name(self, c, env):
        """getattr(self, TABLE[mode]) / getattr(self, 'name')"""
        if isinstance(c, ast.Call) and isinstance(c.func, ast.Name) and c.func.id == 'getattr' \
                and len(c.args) == 2 and isinstance(c.args[0], ast.Name) and c.args[0].id == 'self':
            a = c.args[1]
            s = _const_str(a)
            if s is not None:
                return s
            if isinstance(a, ast.Subscript):
                tab = a.value
                if isinstance(tab, ast.Name) and tab.id in self.consts:
                    tab = self.consts[tab.id]
                key = self.strval(a.slice, env)
                if isinstance(tab, ast.Dict) and key is not None:
                    for k, v in zip(tab.keys, tab.values):
                        if _const_str(k) == key and _const_str(v) is not None:
                            return v.value
        return None

    def find_call(self, expr, env, depth):
        """first adjacency call inside an expression (pre-order), following helpers"""
        for n in ast.walk(expr):
            if not isinstance(n, ast.Call):
                continue
            name = self.method_name(n.func, env)
            if name is None:
                continue
            if name in CALLEES:
                fw = any(isinstance(a, ast.Name) and env.get(a.id, ('other',))[0] == 'o1'
                         for a in list(n.args) + [k.value for k in n.keywords])
                other = [a for a in list(n.args) + [k.value for k in n.keywords]
                         if not (isinstance(a, ast.Name) and env.get(a.id, ('x',))[0] == 'o1')]
                if other:
                    raise Unreadable(f'{name} called with an argument that is not order1_only')
                return CALLEES[name], fw
            if (name.startswith('_') or name in FUNCS) and name in self.funcs and depth < 2:
                fn = self.funcs[name]
                params = [a.arg for a in fn.args.args][1:]
                env2 = {}
                for p, a in list(zip(params, n.args)) + [(k.arg, k.value) for k in n.keywords]:
                    if isinstance(a, ast.Name) and a.id in env:
                        env2[p] = env[a.id]
                    elif _const_str(a) is not None:
                        env2[p] = ('mode', a.value)
                    else:
                        env2[p] = ('other',)
                r = self.body(fn.body, env2, depth + 1)
                if r is not None:
                    return r
        return None

    def body(self, stmts, env, depth=0):
        for st in stmts:
            if isinstance(st, ast.Expr) and isinstance(st.value, ast.Constant):
                continue                                   # docstring
            if isinstance(st, ast.If):
                v = self.test(st.test, env)
                if v is None:
                    if self.mentions_mode(st.test, env):
                        raise Unreadable('a test on mode that is not understood: '
                                         + ast.unparse(st.test)[:80])
                    # a test that does not involve mode (e.g. `if not include_self_loop`)
                    # before any adjacency call would hide a decision
                    if any(self.has_adj(s, env) for s in st.body + st.orelse):
                        raise Unreadable('adjacency call under a test not on mode')
                    continue
                r = self.body(st.body if v else st.orelse, env, depth)
                if r is not None:
                    return r
                continue
            if isinstance(st, ast.Raise):
                raise Raises()
            if isinstance(st, (ast.Assign, ast.AnnAssign, ast.Return, ast.Expr)):
                val = st.value
                if val is None:
                    continue
                if isinstance(st, ast.Assign) and len(st.targets) == 1 \
                        and isinstance(st.targets[0], ast.Name):
                    m = self.getattr_name(val, env)
                    if m is None and isinstance(val, ast.Attribute):
                        m = self.method_name(val, env)
                    if m is not None and m in CALLEES or (m and m in self.funcs):
                        env[st.targets[0].id] = ('method', m)
                        continue
                    if isinstance(val, ast.Name) and val.id in env:
                        env[st.targets[0].id] = env[val.id]     # renamed local
                        continue
                r = self.find_call(val, env, depth)
                if r is not None:
                    return r
                if isinstance(st, ast.Return):
                    return None
                continue
            if isinstance(st, (ast.For, ast.While, ast.With, ast.Try)):
                if self.has_adj(st, env):
                    raise Unreadable('adjacency call inside a loop / with / try')
                continue
            if self.has_adj(st, env):
                raise Unreadable('adjacency call in an unsupported statement')
        return None

    def mentions_mode(self, node, env):
        return any(isinstance(n, ast.Name) and env.get(n.id, ('x',))[0] == 'mode'
                   for n in ast.walk(node))

    def has_adj(self, node, env):
        for n in ast.walk(node):
            if isinstance(n, ast.Attribute) and n.attr in CALLEES:
                return True
            if isinstance(n, ast.Call) and isinstance(n.func, ast.Name) and n.func.id == 'getattr':
                return True
        return False


def _parse(src):
    try:
        return ast.parse(src)
    except SyntaxError as e:
        raise Unreadable(f'syntax error: {e}')


def read_dispatch(src):
    tree = _parse(src)
    consts = {}
    for st in tree.body:
        if isinstance(st, ast.Assign) and len(st.targets) == 1 and isinstance(st.targets[0], ast.Name):
            consts[st.targets[0].id] = st.value
    cls = [n for n in tree.body if isinstance(n, ast.ClassDef) and n.name == 'GraphProcessorMixin']
    if len(cls) != 1:
        raise Unreadable('class GraphProcessorMixin not found')
    funcs = {n.name: n for n in cls[0].body if isinstance(n, ast.FunctionDef)}
    for st in cls[0].body:
        if isinstance(st, ast.Assign) and len(st.targets) == 1 and isinstance(st.targets[0], ast.Name):
            consts.setdefault(st.targets[0].id, st.value)
    out = []
    for f in FUNCS:
        if f not in funcs:
            raise Unreadable(f'{f} not found')
        fn = funcs[f]
        names = [a.arg for a in fn.args.args + fn.args.kwonlyargs]
        if 'mode' not in names:
            raise Unreadable(f'{f} has no parameter mode')
        for mode, nodal in MODES.items():
            env = {'mode': ('mode', mode)}
            if 'order1_only' in names:
                env['order1_only'] = ('o1',)
            try:
                r = Walker(funcs, consts).body(fn.body, env)
            except Raises:
                raise Unreadable(f'{f}(mode={mode!r}) raises')
            if r is None:
                raise Unreadable(f'{f}(mode={mode!r}): no adjacency call found')
            out.append((f, nodal, r[0], r[1]))
        # an unknown mode must not reach an adjacency call
        try:
            r = Walker(funcs, consts).body(fn.body, {'mode': ('mode', '\x00no-such-mode'),
                                                     'order1_only': ('o1',)})
            if r is not None:
                raise Unreadable(f'{f}: an unknown mode reaches an adjacency call')
        except Raises:
            pass
    return out


def read_first_order(src):
    tree = _parse(src)
    cls = [n for n in tree.body if isinstance(n, ast.ClassDef) and n.name == 'FEMElementalAttribute']
    if len(cls) != 1:
        raise Unreadable('class FEMElementalAttribute not found')
    types = None
    fn = None
    for st in cls[0].body:
        if isinstance(st, ast.Assign) and len(st.targets) == 1 and \
                isinstance(st.targets[0], ast.Name) and st.targets[0].id == 'ELEMENT_TYPES':
            try:
                types = list(ast.literal_eval(st.value))
            except (ValueError, SyntaxError):
                raise Unreadable('ELEMENT_TYPES is not a literal')
        if isinstance(st, ast.FunctionDef) and st.name == '_to_first_order':
            fn = st
    if types is None or not all(isinstance(t, str) for t in types):
        raise Unreadable('ELEMENT_TYPES not found')
    if fn is None:
        raise Unreadable('_to_first_order not found')
    params = [a.arg for a in fn.args.args]
    if len(params) != 3:
        raise Unreadable('_to_first_order: unexpected signature')
    tname, dname = params[1], params[2]

    def is_data(n):
        return isinstance(n, ast.Name) and n.id == dname

    def columns(n):
        """element_data[:, :k] -> k"""
        if isinstance(n, ast.Subscript) and is_data(n.value) and isinstance(n.slice, ast.Tuple) \
                and len(n.slice.elts) == 2:
            a, b_ = n.slice.elts
            if isinstance(a, ast.Slice) and a.lower is None and a.upper is None and a.step is None \
                    and isinstance(b_, ast.Slice) and b_.lower is None and b_.step is None \
                    and isinstance(b_.upper, ast.Constant) and isinstance(b_.upper.value, int):
                return b_.upper.value
        return None

    table = []
    guard = False
    closed = False

    def walk(stmts):
        nonlocal guard, closed
        for st in stmts:
            if isinstance(st, ast.Expr) and isinstance(st.value, ast.Constant):
                continue
            if closed:
                raise Unreadable('_to_first_order: statement after the final raise')
            if isinstance(st, ast.Raise):
                closed = True
                continue
            if not isinstance(st, ast.If) or not isinstance(st.test, ast.Compare) \
                    or len(st.test.ops) != 1:
                raise Unreadable('_to_first_order: unsupported statement ' + type(st).__name__)
            t = st.test
            l, r, op = t.left, t.comparators[0], t.ops[0]
            ret = st.body[0] if len(st.body) == 1 and isinstance(st.body[0], ast.Return) else None
            if ret is None:
                raise Unreadable('_to_first_order: branch is not a single return')
            if isinstance(op, ast.NotIn) and _const_str(l) == '2' and isinstance(r, ast.Name) \
                    and r.id == tname and is_data(ret.value) and not table:
                guard = True
            elif isinstance(op, ast.Eq) and isinstance(l, ast.Name) and l.id == tname \
                    and _const_str(r) is not None and columns(ret.value) is not None and guard:
                if r.value in [k for k, _ in table]:
                    raise Unreadable('_to_first_order: type tested twice')
                table.append((r.value, columns(ret.value)))
            else:
                raise Unreadable('_to_first_order: test not understood: ' + ast.unparse(t)[:80])
            walk(st.orelse)

    walk(fn.body)
    if not guard or not closed:
        raise Unreadable("_to_first_order: no `'2' not in type` guard / no final raise")
    return types, table


def translate(repo):
    repo = Path(repo)
    dispatch = read_dispatch((repo / 'femio' / 'graph_processor.py').read_text())
    types, table = read_first_order((repo / 'femio' / 'fem_elemental_attribute.py').read_text())
    return {'dispatch': dispatch, 'first_order': table, 'element_types': types}


def to_coq(d, origin):
    b = lambda x: 'true' if x else 'false'  # noqa
    q = lambda s: '"' + s.replace('"', '""') + '"'  # noqa
    lines = ['(* GENERATED by translate/c13_decisions.py from ' + origin + ' — do not edit *)',
             'From Coq Require Import String List.', 'Import ListNotations.',
             'Open Scope string_scope.', '',
             'Definition src_ELEMENT_TYPES : list string :=',
             '  [' + '; '.join(q(t) for t in d['element_types']) + '].', '',
             "(* _to_first_order: '2' not in type -> unchanged; listed type -> first k columns;",
             '   any other type raises *)',
             'Definition src_first_order_table : list (string * nat) :=',
             '  [' + '; '.join(f'({q(t)}, {k})' for t, k in d['first_order']) + '].', '',
             '(* (function, mode is nodal, the adjacency called is the nodal one, order1_only forwarded) *)',
             'Definition src_dispatch : list (string * bool * bool * bool) :=',
             '  [' + ';\n   '.join(f'({q(f)}, {b(n)}, {b(c)}, {b(fw)})' for f, n, c, fw in d['dispatch'])
             + '].', '']
    return '\n'.join(lines)


if __name__ == '__main__':
    import json
    import sys
    try:
        print(json.dumps(translate(sys.argv[1] if len(sys.argv) > 1 else '/repo'), indent=1))
    except Unreadable as e:
        print('UNREADABLE:', e)
        sys.exit(2)
