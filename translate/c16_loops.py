"""Fail-closed translator for the control flow of the C16 kernels.

The kernels of femio/graph_processor.py are matched, statement by statement and
expression by expression, against the text the Coq model (coq/C16/Model.v) was
written from (TEMPLATES below).  Local variable names may differ (a consistent
renaming is inferred); everything else must coincide, except at the *decision
points* of the k-nearest search, which are read off the source and emitted as a
configuration record `gen_cfg : kcfg` (coq/C16/gen/KnnCfg.v):

  kth_cmp    the comparison in   `d > -res_q[0][0]`            (prune a popped node)
  bound_cmp  the comparison in   `d > distance_upper_bound`     (prune a popped node)
  join_or    `or` / `and` between the two
  skip_empty presence of         `if idx[to + 1] - idx[to] == 0: continue`
  leaf_cmp   the comparison in   `if d > distance_upper_bound: continue` (leaf point)
  leaf_upd   heapq.heappushpop / heapq.heappush on the result heap

Coq then proves `cfg_ok gen_cfg = true` and the correctness theorem for every
configuration accepted by cfg_ok.  The Hausdorff and hop-graph kernels and the
public wrappers have no decision points: they must match their templates
exactly (up to renaming of locals), which pins the text the hand model mirrors.
Any other difference raises TranslateError (tie broken, never a guess)."""
import ast
import hashlib
import textwrap
from pathlib import Path


class TranslateError(Exception):
    pass


def sha(s):
    return hashlib.sha256(s.encode()).hexdigest()


TEMPLATES = {}

TEMPLATES['_nns_from_nodes_to_nodes'] = '''
def _nns_from_nodes_to_nodes(
    nodes, octree, k, distance_upper_bound=np.inf
):
    points, node_xyzw, node_pt, idx = octree

    def possible_dist_min(node_id, x, y, z):
        pass

    def calc_frm(x, y, z):
        que = [(0.0, 0)]
        res_q = [(-np.inf, -1)] * k

        while que:
            d, node_id = heapq.heappop(que)
            if DECISION_join(DECISION_kth(d > -res_q[0][0]), DECISION_bound(d > distance_upper_bound)):
                continue

            if 8 * node_id + 1 < len(node_xyzw):
                for r in range(8):
                    to = 8 * node_id + r + 1
                    if OPTIONAL_skip_empty(idx[to + 1] - idx[to] == 0):
                        continue
                    d = possible_dist_min(to, x, y, z)
                    heapq.heappush(que, (d, to))
                continue
            for point_id in node_pt[idx[node_id]: idx[node_id + 1], 1]:
                px, py, pz = points[point_id]
                d = ((x - px) ** 2 + (y - py) ** 2 + (z - pz) ** 2) ** .5
                if DECISION_leaf(d > distance_upper_bound):
                    continue
                DECISION_upd(heapq.heappushpop(res_q, (-d, np.int64(point_id))))
        nbd_indices = np.empty(k, np.int32)
        vectors = np.empty((k, 3), np.float64)
        for i in range(k):
            j = heapq.heappop(res_q)[1]
            nbd_indices[i] = j
            if j == -1:
                vectors[i] = (np.inf, np.inf, np.inf)
            else:
                vectors[i][0] = points[j, 0] - x
                vectors[i][1] = points[j, 1] - y
                vectors[i][2] = points[j, 2] - z
        return nbd_indices[::-1], vectors[::-1]

    N = len(nodes)
    nbd_indices = np.empty((N, k), np.int32)
    vectors = np.empty((N, k, 3), np.float64)
    for i in range(N):
        x, y, z = nodes[i]
        nbd_indices[i], vectors[i] = calc_frm(x, y, z)
    dists = np.empty((N, k), np.float64)
    for i in range(N):
        for n in range(k):
            x, y, z = vectors[i, n]
            dists[i, n] = (x * x + y * y + z * z)**.5
    return nbd_indices, vectors, dists
'''

TEMPLATES['_calc_directed_hausdorff_nodes'] = '''
def _calc_directed_hausdorff_nodes(
    octree_A, octree_B
):
    points_A, node_xyzw_A, node_pt_A, idx_A = octree_A
    points_B, node_xyzw_B, node_pt_B, idx_B = octree_B

    def possible_dist_max_node(i, j):
        pass

    def possible_dist_range(node_id, x, y, z):
        pass

    def calc_frm_node(i):
        que = [(0.0, 0)]
        dist = np.inf
        while que:
            d, node_id = heapq.heappop(que)
            if DECISION_ub_prune(d > dist):
                continue
            if 8 * node_id + 1 < len(node_xyzw_B):
                for r in range(8):
                    to = 8 * node_id + r + 1
                    if idx_B[to + 1] - idx_B[to] == 0:
                        continue
                    d = possible_dist_max_node(i, to)
                    if DECISION_ub_push(d < dist):
                        heapq.heappush(que, (d, to))
                continue
            dist = min(dist, possible_dist_max_node(i, node_id))
        return dist

    que = [(0.0, 0)] * 0
    maxsize = len(node_xyzw_A)
    for i in range(maxsize):
        if 8 * i + 1 < maxsize or idx_A[i + 1] == idx_A[i]:
            continue
        que.append((-calc_frm_node(i), i))
    heapq.heapify(que)

    HD = 0.0

    def calc_frm(x, y, z):
        que = [(0.0, 0)]
        dist = np.inf

        while que:
            d, node_id = heapq.heappop(que)
            if DECISION_nn_prune(d > dist):
                continue

            if 8 * node_id + 1 < len(node_xyzw_B):
                for r in range(8):
                    to = 8 * node_id + r + 1
                    if idx_B[to + 1] - idx_B[to] == 0:
                        continue
                    lo, hi = possible_dist_range(to, x, y, z)
                    if DECISION_nn_short(hi <= HD):
                        return 0.0
                    heapq.heappush(que, (lo, to))
                continue
            PID = node_pt_B[idx_B[node_id]: idx_B[node_id + 1], 1]
            for point_id in PID:
                px, py, pz = points_B[point_id]
                d = ((x - px) ** 2 + (y - py) ** 2 + (z - pz) ** 2) ** .5
                dist = min(dist, d)
        return dist

    while que:
        WEB_key, i = heapq.heappop(que)
        dist_upper = -WEB_key
        if DECISION_loop_break(dist_upper <= HD):
            break
        for point_id in node_pt_A[idx_A[i]:idx_A[i + 1], 1]:
            x, y, z = points_A[point_id]
            HD = max(HD, calc_frm(x, y, z))
    return HD
'''

TEMPLATES['calculate_hausdorff_distance_nodes'] = '''
def calculate_hausdorff_distance_nodes(
        self, target_fem_data, directed=False):
    A = self.nodes.data
    B = target_fem_data.nodes.data
    xmin = min(A[:, 0].min(), B[:, 0].min())
    xmax = max(A[:, 0].max(), B[:, 0].max())
    ymin = min(A[:, 1].min(), B[:, 1].min())
    ymax = max(A[:, 1].max(), B[:, 1].max())
    zmin = min(A[:, 2].min(), B[:, 2].min())
    zmax = max(A[:, 2].max(), B[:, 2].max())
    boundingbox = (xmin, xmax, ymin, ymax, zmin, zmax)

    octree_A = self.build_octree_node(A, boundingbox)
    octree_B = self.build_octree_node(B, boundingbox)

    if directed:
        return self._calc_directed_hausdorff_nodes(octree_A, octree_B)
    else:
        HD1 = self._calc_directed_hausdorff_nodes(octree_A, octree_B)
        HD2 = self._calc_directed_hausdorff_nodes(octree_B, octree_A)
        return max(HD1, HD2)
'''

TEMPLATES['nearest_neighbor_search_from_nodes_to_nodes'] = '''
def nearest_neighbor_search_from_nodes_to_nodes(
    self, k, distance_upper_bound=np.inf, target_fem_data=None
):
    if target_fem_data is None:
        target_fem_data = self

    points = target_fem_data.nodes.data
    xmin = points[:, 0].min()
    xmax = points[:, 0].max()
    ymin = points[:, 1].min()
    ymax = points[:, 1].max()
    zmin = points[:, 2].min()
    zmax = points[:, 2].max()
    boundingbox = (xmin, xmax, ymin, ymax, zmin, zmax)
    octree = self.build_octree_node(points, boundingbox)
    nodes = self.nodes.data
    return self._nns_from_nodes_to_nodes(
        nodes, octree, k, distance_upper_bound)
'''

TEMPLATES['_calculate_euclidean_hop_graph_nodal'] = '''
def _calculate_euclidean_hop_graph_nodal(
        indptr_v, indices_v, indptr_e, indices_e, node_pos, max_dist):
    eps = 1e-8
    max_dist += eps
    V = len(indptr_v) - 1
    E = len(indptr_e) - 1
    visited = np.zeros(V + E, np.bool_)
    res = [0] * 0

    for v in range(V):
        x, y, z = node_pos[v]

        def is_nbd(w):
            x1, y1, z1 = node_pos[w]
            dx, dy, dz = x - x1, y - y1, z - z1
            return dx * dx + dy * dy + dz * dz <= max_dist**2

        que = [v]
        visited[v] = 1
        for frm in que:
            if frm < V:
                TO = indices_v[indptr_v[frm]:indptr_v[frm + 1]]
                for to in TO:
                    to += V
                    if visited[to]:
                        continue
                    visited[to] = 1
                    que.append(to)
            else:
                TO = indices_e[indptr_e[frm - V]:indptr_e[frm - V + 1]]
                for to in TO:
                    if visited[to]:
                        continue
                    if not is_nbd(to):
                        continue
                    visited[to] = 1
                    que.append(to)
                    res.append(v)
                    res.append(to)
        for w in que:
            visited[w] = 0
    return res
'''

TEMPLATES['_calculate_euclidean_hop_graph_elemental'] = '''
def _calculate_euclidean_hop_graph_elemental(
        indptr_v, indices_v, indptr_e, indices_e, node_pos, max_dist):
    eps = 1e-8
    max_dist += eps
    V = len(indptr_v) - 1
    E = len(indptr_e) - 1
    visited = np.zeros(V + E, np.bool_)
    res = [0] * 0

    for e in range(E):
        v_ids = indices_e[indptr_e[e]:indptr_e[e + 1]]
        xyz = node_pos[v_ids]

        def is_nbd(v):
            x, y, z = node_pos[v]
            for x1, y1, z1 in xyz:
                dx, dy, dz = x - x1, y - y1, z - z1
                if dx * dx + dy * dy + dz * dz <= max_dist**2:
                    return True
            return False

        que = [V + e]
        visited[V + e] = 1
        for frm in que:
            if frm < V:
                TO = indices_v[indptr_v[frm]:indptr_v[frm + 1]]
                for to in TO:
                    to += V
                    if visited[to]:
                        continue
                    visited[to] = 1
                    que.append(to)
                    res.append(e)
                    res.append(to - V)
            else:
                TO = indices_e[indptr_e[frm - V]:indptr_e[frm - V + 1]]
                for to in TO:
                    if visited[to]:
                        continue
                    if not is_nbd(to):
                        continue
                    visited[to] = 1
                    que.append(to)
        for w in que:
            visited[w] = 0
    return res
'''

TEMPLATES['build_octree_node'] = '''
def build_octree_node(points, boundingbox):
    N = len(points)
    xmin, xmax, ymin, ymax, zmin, zmax = boundingbox
    w0 = max(xmax - xmin, ymax - ymin, zmax - zmin) * 0.51
    x0 = (xmin + xmax) / 2
    y0 = (ymin + ymax) / 2
    z0 = (zmin + zmax) / 2
    if w0 > 0:
        # Snap the grid: the half width becomes a power of two and the
        # centre a multiple of the leaf half width.  Cell centres and
        # bounds are then computed without rounding, so the children of a
        # cell tile it exactly.  Otherwise a point on a cell border can
        # lie in none of the (rounded) child boxes and is lost.
        w0 = 2.0 ** np.ceil(np.log2(w0))
        leaf_w = w0 / 256
        x0 = np.round(x0 / leaf_w) * leaf_w
        y0 = np.round(y0 / leaf_w) * leaf_w
        z0 = np.round(z0 / leaf_w) * leaf_w
    maxsize = 19173961
    node_xyzw = np.empty((maxsize, 4))
    node_xyzw[0] = (x0, y0, z0, w0)
    for v in range(1, maxsize):
        p = (v - 1) >> 3
        WEB_r = (v - 1) & 7
        px, py, pz, pw = node_xyzw[p]
        vw = pw / 2
        vx = px - vw if WEB_r & 4 else px + vw
        vy = py - vw if WEB_r & 2 else py + vw
        vz = pz - vw if WEB_r & 1 else pz + vw
        node_xyzw[v] = (vx, vy, vz, vw)

    node_pt, sz = np.empty((9 * N, 2), np.int32), 0

    def add(v, i):
        nonlocal sz
        node_pt[sz], sz = (v, i), sz + 1

    for i in range(N):
        x, y, z = points[i]
        v = 0
        add(v, i)
        for _ in range(8):
            vx, vy, vz, vw = node_xyzw[v]
            assert vx - vw <= x <= vx + vw
            assert vy - vw <= y <= vy + vw
            assert vz - vw <= z <= vz + vw
            for r in range(8):
                c = (v << 3) + r + 1
                cx, cy, cz, cw = node_xyzw[c]
                if not (cx - cw <= x <= cx + cw):
                    continue
                if not (cy - cw <= y <= cy + cw):
                    continue
                if not (cz - cw <= z <= cz + cw):
                    continue
                v = c
                break
            add(v, i)
    ID = np.argsort(node_pt[:, 0])
    node_pt = node_pt[ID]
    idx = np.searchsorted(node_pt[:, 0], np.arange(maxsize + 1))
    return (points, node_xyzw, node_pt, idx)
'''

# nested kernels translated by c16_bounds.py: only their signature is matched here
OPAQUE_NESTED = {'possible_dist_min', 'possible_dist_max_node', 'possible_dist_range'}

CMP_NAMES = {ast.Gt: 'Gt', ast.GtE: 'Ge', ast.Lt: 'Lt', ast.LtE: 'Le', ast.Eq: 'EqC', ast.NotEq: 'NeC'}


def strip_doc(body):
    if body and isinstance(body[0], ast.Expr) and isinstance(body[0].value, ast.Constant) \
            and isinstance(body[0].value.value, str):
        return body[1:]
    return body


class Matcher:
    def __init__(self, fname):
        self.fname = fname
        self.ren = {}       # template local -> actual local
        self.inv = {}
        self.owner = {}
        self.decisions = {}

    def err(self, a, msg):
        raise TranslateError(f'{self.fname}: line {getattr(a, "lineno", "?")}: {msg}')

    def marker(self, t):
        if isinstance(t, ast.Call) and isinstance(t.func, ast.Name) and \
                (t.func.id.startswith('DECISION_') or t.func.id.startswith('OPTIONAL_')):
            return t.func.id
        return None

    def name(self, t, a, node, store=False):
        """template local t stands for actual local a.  Two template names may share one actual
        name only if at most one of them is not a WEB name (a template name starting with WEB
        marks a value that the original source keeps in a variable it re-uses later for something
        else); `owner` tracks whose value the shared actual variable currently holds, and a read
        of the other one is refused (loop bodies are walked twice, so values carried around a
        loop are seen too)."""
        if t in self.ren:
            if self.ren[t] != a:
                self.err(node, f'name {a!r} where {self.ren[t]!r} was expected')
        else:
            others = self.inv.get(a, set())
            if others and not t.startswith('WEB') and any(not o.startswith('WEB') for o in others):
                self.err(node, f'name {a!r} is used for two different variables')
            self.ren[t] = a
            self.inv.setdefault(a, set()).add(t)
        if store:
            self.owner[a] = t
        elif self.owner.get(a, t) != t and len(self.inv.get(a, ())) > 1:
            self.err(node, f'{a!r} is read as {t!r} but may hold the value of {self.owner[a]!r}')

    def stmts(self, ts, as_, ctxnode):
        ts, as_ = strip_doc(list(ts)), strip_doc(list(as_))
        i = j = 0
        while i < len(ts):
            t = ts[i]
            # optional statement: `if OPTIONAL_x(cond): continue`
            if isinstance(t, ast.If) and self.marker(t.test) and self.marker(t.test).startswith('OPTIONAL_'):
                key = self.marker(t.test)[len('OPTIONAL_'):]
                inner = ast.If(test=t.test.args[0], body=t.body, orelse=t.orelse)
                if j < len(as_) and isinstance(as_[j], ast.If):
                    save = (dict(self.ren), {k: set(v) for k, v in self.inv.items()}, dict(self.decisions))
                    try:
                        self.node(inner, as_[j])
                        self.decisions[key] = True
                        i += 1
                        j += 1
                        continue
                    except TranslateError:
                        self.ren, self.inv, self.decisions = save
                self.decisions[key] = False
                i += 1
                continue
            if j >= len(as_):
                self.err(ctxnode, 'statement missing: ' + ast.unparse(t)[:60])
            self.node(t, as_[j])
            i += 1
            j += 1
        if j < len(as_):
            self.err(as_[j], 'unexpected statement: ' + ast.unparse(as_[j])[:60])

    def node(self, t, a):
        mk = self.marker(t)
        if mk and mk.startswith('DECISION_'):
            key = mk[len('DECISION_'):]
            inner = t.args[0] if len(t.args) == 1 else None
            if key == 'join':
                if not (isinstance(a, ast.BoolOp) and len(a.values) == 2):
                    self.err(a, 'expected two pruning tests joined by or/and')
                self.decisions['join_or'] = isinstance(a.op, ast.Or)
                self.node(t.args[0], a.values[0])
                self.node(t.args[1], a.values[1])
                return
            if key not in ('join', 'upd') and isinstance(inner, ast.Compare):
                if not (isinstance(a, ast.Compare) and len(a.ops) == 1 and type(a.ops[0]) in CMP_NAMES):
                    self.err(a, 'expected a single comparison')
                self.decisions[key + '_cmp'] = CMP_NAMES[type(a.ops[0])]
                self.node(inner.left, a.left)
                self.node(inner.comparators[0], a.comparators[0])
                return
            if key == 'upd':
                if not (isinstance(a, ast.Call) and isinstance(a.func, ast.Attribute)
                        and a.func.attr in ('heappushpop', 'heappush')):
                    self.err(a, 'expected heapq.heappushpop / heappush on the result heap')
                self.decisions['leaf_upd'] = 'PushPop' if a.func.attr == 'heappushpop' else 'PushOnly'
                self.node(inner.func.value, a.func.value)
                if len(inner.args) != len(a.args) or a.keywords:
                    self.err(a, 'arguments of the heap update')
                for x, y in zip(inner.args, a.args):
                    self.node(x, y)
                return
            self.err(a, 'unknown decision ' + key)
        if type(t) is not type(a):
            self.err(a, f'{type(a).__name__} where {type(t).__name__} was expected: '
                        + ast.unparse(a)[:60] if hasattr(ast, 'unparse') else '')
        if isinstance(t, ast.FunctionDef):
            if t.name != a.name:
                self.err(a, f'function {a.name} where {t.name} was expected')
            ta, aa = t.args, a.args
            if len(ta.args) != len(aa.args) or aa.vararg or aa.kwarg or aa.kwonlyargs \
                    or len(ta.defaults) != len(aa.defaults):
                self.err(a, 'signature differs')
            sub = Matcher(self.fname + '.' + t.name) if False else self
            for x, y in zip(ta.args, aa.args):
                self.name(x.arg, y.arg, a, store=True)
            for x, y in zip(ta.defaults, aa.defaults):
                self.node(x, y)
            if t.name in OPAQUE_NESTED:
                return
            self.stmts(t.body, a.body, a)
            return
        if isinstance(t, ast.Name):
            self.name(t.id, a.id, a, store=isinstance(t.ctx, (ast.Store, ast.Del)))
            return
        if isinstance(t, (ast.For, ast.While)):
            self.fields(t, a)
            self.fields(t, a)       # second walk: values carried around the loop
            return
        if isinstance(t, ast.Constant):
            if type(t.value) is not type(a.value) or t.value != a.value:
                self.err(a, f'constant {a.value!r} where {t.value!r} was expected')
            return
        if isinstance(t, ast.Attribute):
            if t.attr != a.attr:
                self.err(a, f'attribute {a.attr} where {t.attr} was expected')
            self.node(t.value, a.value)
            return
        self.fields(t, a)

    def fields(self, t, a):
        for field in t._fields:
            tv, av = getattr(t, field, None), getattr(a, field, None)
            if field in ('ctx', 'type_comment', 'lineno', 'col_offset', 'kind'):
                continue
            if field in ('body', 'orelse', 'finalbody') and isinstance(tv, list):
                self.stmts(tv, av, a)
                continue
            if isinstance(tv, list):
                if len(tv) != len(av):
                    self.err(a, f'{field}: {len(av)} items where {len(tv)} were expected')
                for x, y in zip(tv, av):
                    if isinstance(x, ast.AST):
                        self.node(x, y)
                    elif x != y:
                        self.err(a, f'{field} differs')
            elif isinstance(tv, ast.AST):
                if not isinstance(av, ast.AST):
                    self.err(a, f'{field} missing')
                self.node(tv, av)
            else:
                if isinstance(tv, type(None)) and av is None:
                    continue
                if tv != av:
                    self.err(a, f'{field}: {av!r} where {tv!r} was expected')


# ---------------------------------------------------------------------------------------------
# Canonical form ("meaning, not spelling").  Applied to the template AND to the source before the
# lock-step walk when the literal walk fails.  Every rewrite preserves the meaning of the function:
#   * module-level integer/float constants are evaluated and substituted; integer constant
#     expressions are folded ((8 + 1) * N -> 9 * N);
#   * x >> k -> x // 2^k,  x << k -> 2^k * x,  x & (2^k - 1) -> x % 2^k,  x * c -> c * x,
#     a - b == 0 -> a == b;
#   * nested one-line helpers (`def f(a): return E`) that the template does not know are inlined;
#   * single-assignment locals with a pure arithmetic right-hand side whose operands are not
#     re-bound while the local is live are inlined (hoisted temporaries such as
#     first_child = 8 * v + 1 or max_dist_sq = max_dist ** 2);
#   * `for r in range(N): t = E + r ...` (r otherwise unused) -> `for t in range(E, E + N)`;
#     integer sums in range() arguments are put in a normal form;
#   * consecutive `if a: continue` / `if b: continue` are merged into `if a or b: continue`.
class Unsafe(Exception):
    pass


_ARITH = {ast.Add: lambda a, b: a + b, ast.Sub: lambda a, b: a - b, ast.Mult: lambda a, b: a * b,
          ast.FloorDiv: lambda a, b: a // b, ast.Mod: lambda a, b: a % b, ast.Pow: lambda a, b: a ** b,
          ast.LShift: lambda a, b: a << b, ast.RShift: lambda a, b: a >> b,
          ast.BitAnd: lambda a, b: a & b, ast.BitOr: lambda a, b: a | b}


def _is_int(n):
    return isinstance(n, ast.Constant) and type(n.value) is int


def _fold(op, a, b):
    """integer constant folding; None when not applicable"""
    f = _ARITH.get(type(op))
    if f is None:
        return None
    try:
        if isinstance(op, ast.Pow) and (b < 0 or b > 64):
            return None
        if isinstance(op, (ast.LShift, ast.RShift)) and not (0 <= b <= 64):
            return None
        v = f(a, b)
    except Exception:
        return None
    return v if type(v) is int and abs(v) < 2 ** 70 else None


def module_constants(tree):
    """module-level `NAME = <constant expression>` (bound exactly once) -> value"""
    count, env = {}, {}
    for st in tree.body:
        for n in ast.walk(st) if not isinstance(st, (ast.FunctionDef, ast.ClassDef)) else []:
            if isinstance(n, ast.Name) and isinstance(n.ctx, ast.Store):
                count[n.id] = count.get(n.id, 0) + 1

    def ev(e):
        if isinstance(e, ast.Constant) and type(e.value) in (int, float):
            return e.value
        if isinstance(e, ast.Name) and e.id in env:
            return env[e.id]
        if isinstance(e, ast.UnaryOp) and isinstance(e.op, ast.USub):
            return -ev(e.operand)
        if isinstance(e, ast.BinOp):
            a, b = ev(e.left), ev(e.right)
            if type(a) is int and type(b) is int:
                v = _fold(e.op, a, b)
                if v is not None:
                    return v
            if isinstance(e.op, (ast.Add, ast.Sub, ast.Mult, ast.Div)) and float in (type(a), type(b)):
                return {ast.Add: a + b, ast.Sub: a - b, ast.Mult: a * b}.get(type(e.op)) \
                    if not isinstance(e.op, ast.Div) else a / b
        raise Unsafe()
    for st in tree.body:
        if isinstance(st, ast.Assign) and len(st.targets) == 1 and isinstance(st.targets[0], ast.Name) \
                and count.get(st.targets[0].id) == 1:
            try:
                env[st.targets[0].id] = ev(st.value)
            except Unsafe:
                pass
    return env


def scope_nodes(fn):
    """nodes of fn's own scope: nested function definitions are yielded but not entered"""
    stack = list(ast.iter_child_nodes(fn))
    while stack:
        n = stack.pop()
        yield n
        if isinstance(n, (ast.FunctionDef, ast.Lambda, ast.ClassDef)):
            continue
        stack.extend(ast.iter_child_nodes(n))


def binding_sites(fn):
    """name -> positions where the name is (re)bound in fn's own scope (parameters, stores, nested
    definitions; a name declared nonlocal/global anywhere below counts as bound many times)"""
    out = {}

    def add(nm, node):
        out.setdefault(nm, []).append((getattr(node, 'lineno', 10 ** 9), getattr(node, 'col_offset', 0)))
    for n in scope_nodes(fn):
        if isinstance(n, ast.Name) and isinstance(n.ctx, (ast.Store, ast.Del)):
            add(n.id, n)
        elif isinstance(n, ast.arg) :
            add(n.arg, n)
        elif isinstance(n, (ast.FunctionDef, ast.ClassDef)):
            add(n.name, n)
        elif isinstance(n, ast.alias):
            add((n.asname or n.name).split('.')[0], n)
    for n in ast.walk(fn):
        if isinstance(n, (ast.Nonlocal, ast.Global)):
            for nm in n.names:
                add(nm, n)
                add(nm, n)
    return out


def shadowed(fn):
    """names bound inside function definitions nested in fn (their own parameters / locals)"""
    out = set()
    for n in scope_nodes(fn):
        if isinstance(n, (ast.FunctionDef, ast.Lambda)):
            for m in ast.walk(n):
                if isinstance(m, ast.Name) and isinstance(m.ctx, (ast.Store, ast.Del)):
                    out.add(m.id)
                elif isinstance(m, ast.arg):
                    out.add(m.arg)
                elif isinstance(m, ast.FunctionDef) and m is not n:
                    out.add(m.name)
    return out


def _pure(e):
    if isinstance(e, (ast.Name, ast.Constant)):
        return True
    if isinstance(e, ast.BinOp):
        return _pure(e.left) and _pure(e.right)
    if isinstance(e, ast.UnaryOp):
        return _pure(e.operand)
    if isinstance(e, ast.Call) and isinstance(e.func, ast.Name) and e.func.id == 'len' \
            and len(e.args) == 1 and not e.keywords:
        return _pure(e.args[0])
    return False


def _names(e):
    return {n.id for n in ast.walk(e) if isinstance(n, ast.Name)}


class _Subst(ast.NodeTransformer):
    def __init__(self, mapping):
        self.mapping = mapping

    def visit_Name(self, n):
        if isinstance(n.ctx, ast.Load) and n.id in self.mapping:
            import copy
            return copy.deepcopy(self.mapping[n.id])
        return n


def _blocks(fn):
    """every statement list of fn's own scope (including fn.body)"""
    for n in [fn] + list(scope_nodes(fn)):
        if n is not fn and isinstance(n, (ast.FunctionDef, ast.Lambda, ast.ClassDef)):
            continue
        for field in ('body', 'orelse', 'finalbody'):
            L = getattr(n, field, None)
            if isinstance(L, list) and L and isinstance(L[0], ast.stmt):
                yield n, field, L


def _loads(nodes, name, in_nested=False):
    """(number of loads of name, number of those inside nested function definitions)"""
    tot = nested = 0

    def walk(n, inner):
        nonlocal tot, nested
        if isinstance(n, ast.Name) and n.id == name and isinstance(n.ctx, ast.Load):
            tot += 1
            nested += inner
        for ch in ast.iter_child_nodes(n):
            walk(ch, inner or isinstance(n, (ast.FunctionDef, ast.Lambda)))
    for n in nodes:
        walk(n, in_nested)
    return tot, nested


def _stores_in(nodes):
    out = set()
    for r in nodes:
        for n in ast.walk(r):
            if isinstance(n, ast.Name) and isinstance(n.ctx, (ast.Store, ast.Del)):
                out.add(n.id)
            elif isinstance(n, ast.arg):
                out.add(n.arg)
            elif isinstance(n, (ast.Nonlocal, ast.Global)):
                out.update(n.names)
            elif isinstance(n, ast.FunctionDef):
                out.add(n.name)
    return out


def inline_temps(fn, allow=lambda t: True):
    """inline ONE single-assignment pure local of fn's own scope (see module comment); True if done.
    `t = E` at position i of a statement list L is inlined when t is bound nowhere else, every
    read of t lies in L[i+1:], no operand of E is bound in L[i+1:], and -- if t is read inside a
    nested function (which may run at any later time) -- the assignment is a top-level statement
    of fn and no operand of E is bound anywhere after it."""
    sites = binding_sites(fn)
    shadow = shadowed(fn)
    for owner, field, L in _blocks(fn):
        for i, st in enumerate(L):
            if not (isinstance(st, ast.Assign) and len(st.targets) == 1 and isinstance(st.targets[0], ast.Name)):
                continue
            t = st.targets[0].id
            ops = _names(st.value)
            if len(sites.get(t, [])) != 1 or t in shadow or not _pure(st.value) or t in ops or not allow(t):
                continue
            rest = L[i + 1:]
            tot_all, _ = _loads([fn], t)
            tot, nested = _loads(rest, t)
            if tot != tot_all or tot == 0:
                continue
            here = (st.lineno, st.col_offset)
            # read only in the header of the next statement (evaluated once, immediately)?
            nxt = rest[0] if rest else None
            hdr = nxt.iter if isinstance(nxt, ast.For) else nxt.test if isinstance(nxt, ast.If) else None
            immediate = hdr is not None and _loads([hdr], t) == (tot, 0)
            if ops & _stores_in(rest) and not immediate:
                continue
            if nested and (L is not fn.body or ops & shadow
                           or any(p > here for x in ops for p in sites.get(x, []))):
                continue
            sub = _Subst({t: st.value})
            L[i + 1:] = [sub.visit(r) for r in rest]
            del L[i]
            return True
    return False


def inline_helpers(fn, known):
    """nested `def f(a, b): return E` unknown to the template -> calls replaced by E[a, b := args]"""
    changed = False
    sites = binding_sites(fn)
    for st in list(fn.body):
        if not isinstance(st, ast.FunctionDef) or st.name in known or st.decorator_list:
            continue
        body = strip_doc(list(st.body))
        a = st.args
        if len(body) != 1 or not isinstance(body[0], ast.Return) or body[0].value is None \
                or a.vararg or a.kwarg or a.kwonlyargs or a.defaults or len(sites.get(st.name, [])) != 1:
            continue
        params = [x.arg for x in a.args]
        expr = body[0].value
        # the helper must only read; names it reads besides its parameters keep their meaning
        # at the call site because closures read the enclosing variables at call time
        if any(isinstance(n, (ast.Lambda, ast.NamedExpr, ast.Yield, ast.Await)) for n in ast.walk(expr)):
            continue
        others = [o for o in scope_nodes(fn) if isinstance(o, (ast.FunctionDef, ast.Lambda)) and o is not st]
        shadow_o = set()
        for o in others:
            shadow_o |= _stores_in([o])
        if (_names(expr) - set(params)) & shadow_o:
            continue
        bad = [False]

        class Inl(ast.NodeTransformer):
            def visit_Call(self, c):
                self.generic_visit(c)
                if isinstance(c.func, ast.Name) and c.func.id == st.name:
                    if c.keywords or len(c.args) != len(params) or \
                            not all(isinstance(x, (ast.Name, ast.Constant)) for x in c.args):
                        bad[0] = True
                        return c
                    import copy
                    return _Subst(dict(zip(params, c.args))).visit(copy.deepcopy(expr))
                return c
        import copy
        trial = copy.deepcopy(fn)
        trial.body = [s for s in trial.body if not (isinstance(s, ast.FunctionDef) and s.name == st.name)]
        trial = Inl().visit(trial)
        if bad[0] or _loads([trial], st.name)[0]:
            continue
        fn.body = trial.body
        changed = True
    return changed


def _sum_terms(e, sign, terms):
    if isinstance(e, ast.BinOp) and isinstance(e.op, ast.Add):
        _sum_terms(e.left, sign, terms)
        _sum_terms(e.right, sign, terms)
    elif isinstance(e, ast.BinOp) and isinstance(e.op, ast.Sub):
        _sum_terms(e.left, sign, terms)
        _sum_terms(e.right, -sign, terms)
    else:
        terms.append((sign, e))


def sum_normal(e, drop=None):
    """normal form of an INTEGER sum: positive terms, negative terms (each sorted), constant last.
    drop: a name removed once from the positive terms (returns None if it is not there exactly once)"""
    terms = []
    _sum_terms(e, 1, terms)
    const, pos, neg, dropped = 0, [], [], 0
    for s, t in terms:
        if _is_int(t):
            const += s * t.value
        elif drop and isinstance(t, ast.Name) and t.id == drop and s == 1:
            dropped += 1
        else:
            (pos if s == 1 else neg).append(t)
    if drop and (dropped != 1 or any(drop in _names(t) for t in pos + neg)):
        return None
    pos.sort(key=ast.dump)
    neg.sort(key=ast.dump)
    out = None
    for t in pos:
        out = t if out is None else ast.BinOp(left=out, op=ast.Add(), right=t)
    for t in neg:
        out = ast.UnaryOp(op=ast.USub(), operand=t) if out is None else ast.BinOp(left=out, op=ast.Sub(), right=t)
    if out is None:
        return ast.Constant(value=const)
    if const > 0:
        out = ast.BinOp(left=out, op=ast.Add(), right=ast.Constant(value=const))
    elif const < 0:
        out = ast.BinOp(left=out, op=ast.Sub(), right=ast.Constant(value=-const))
    return out


def _is_range(c):
    return isinstance(c, ast.Call) and isinstance(c.func, ast.Name) and c.func.id == 'range' and not c.keywords


def _only_before(fn, loop, r):
    """all occurrences of name r outside `loop` are textually before it and not inside a loop
    statement (of fn's scope) that also contains `loop`"""
    inside = {id(x) for x in ast.walk(loop)}
    enclosing = [x for x in scope_nodes(fn) if isinstance(x, (ast.For, ast.While)) and x is not loop
                 and any(y is loop for y in ast.walk(x))]
    enc_ids = set()
    for e in enclosing:
        enc_ids |= {id(x) for x in ast.walk(e)}
    here = (loop.lineno, loop.col_offset)
    for x in ast.walk(fn):
        occ = (isinstance(x, ast.Name) and x.id == r) or (isinstance(x, ast.arg) and x.arg == r) \
            or (isinstance(x, (ast.Nonlocal, ast.Global)) and r in x.names)
        if not occ or id(x) in inside:
            continue
        if isinstance(x, (ast.arg, ast.Nonlocal, ast.Global)) and x in list(scope_nodes(fn)):
            return False
        if id(x) in enc_ids or (getattr(x, 'lineno', 10 ** 9), getattr(x, 'col_offset', 0)) >= here:
            return False
    return True


def _stores_then_break(body, names):
    """inside a loop body: every statement that binds one of `names` is a plain assignment directly
    followed by `break` of that loop (so the bound value is never seen by a later iteration)"""
    def block(L, in_inner_loop):
        for j, st in enumerate(L):
            if isinstance(st, (ast.Assign, ast.AugAssign, ast.AnnAssign)):
                if _stores_in([st]) & names:
                    if in_inner_loop or j + 1 >= len(L) or not isinstance(L[j + 1], ast.Break):
                        return False
                continue
            if isinstance(st, (ast.For, ast.While)):
                if _stores_in([st.target] if isinstance(st, ast.For) else []) & names:
                    return False
                if not block(st.body, True) or not block(st.orelse, True):
                    return False
                continue
            if isinstance(st, ast.If):
                if not block(st.body, in_inner_loop) or not block(st.orelse, in_inner_loop):
                    return False
                continue
            if _stores_in([st]) & names:
                return False
        return True
    return block(body, False)


def rewrite_index_loops(fn):
    """for r in range(N): t = E + r; rest   ->   for t in range(E, E + N): rest
    (in fn's own scope; r and t bound nowhere else, r read only in that assignment, t read only
    in rest and not inside a nested function, the operands of E not bound in rest)"""
    changed = False
    sites = binding_sites(fn)
    shadow = shadowed(fn)
    for n in scope_nodes(fn):
        if not (isinstance(n, ast.For) and isinstance(n.target, ast.Name) and _is_range(n.iter)
                and len(n.iter.args) == 1 and _is_int(n.iter.args[0]) and not n.orelse and n.body):
            continue
        r, N = n.target.id, n.iter.args[0].value
        st = n.body[0]
        if not (isinstance(st, ast.Assign) and len(st.targets) == 1 and isinstance(st.targets[0], ast.Name)):
            continue
        t = st.targets[0].id
        if len(sites.get(t, [])) != 1 or t == r or {r, t} & shadow:
            continue
        if _loads([st.value], r)[0] != 1 or _loads(n.body, r)[0] != 1 or r in _stores_in(n.body):
            continue
        # every other occurrence of r lies textually before this loop and outside the loops that
        # enclose it, so it can neither see nor disturb this loop's index
        if not _only_before(fn, n, r):
            continue
        if _loads([fn], t)[0] != _loads(n.body[1:], t)[0] or _loads(n.body[1:], t)[1]:
            continue
        lo = sum_normal(st.value, drop=r)
        if lo is None or not _pure(lo) or not _stores_then_break(n.body[1:], _names(lo)):
            continue
        import copy
        hi = sum_normal(ast.BinOp(left=copy.deepcopy(lo), op=ast.Add(), right=ast.Constant(value=N)))
        n.target = ast.copy_location(ast.Name(id=t, ctx=ast.Store()), st.targets[0])
        n.iter = ast.Call(func=ast.Name(id='range', ctx=ast.Load()), args=[lo, hi], keywords=[])
        n.body = n.body[1:] or [ast.Pass()]
        changed = True
    return changed


class _Arith(ast.NodeTransformer):
    def __init__(self, consts, local):
        self.consts, self.local = consts, local

    def visit_Name(self, n):
        if isinstance(n.ctx, ast.Load) and n.id in self.consts and n.id not in self.local:
            return ast.copy_location(ast.Constant(value=self.consts[n.id]), n)
        return n

    def visit_BinOp(self, n):
        self.generic_visit(n)
        a, b = n.left, n.right
        if _is_int(a) and _is_int(b):
            v = _fold(n.op, a.value, b.value)
            if v is not None:
                return ast.copy_location(ast.Constant(value=v), n)
        if _is_int(b) and isinstance(n.op, ast.RShift) and 0 <= b.value <= 62:
            return ast.copy_location(ast.BinOp(left=a, op=ast.FloorDiv(), right=ast.Constant(value=2 ** b.value)), n)
        if _is_int(b) and isinstance(n.op, ast.LShift) and 0 <= b.value <= 62:
            return ast.copy_location(ast.BinOp(left=ast.Constant(value=2 ** b.value), op=ast.Mult(), right=a), n)
        if _is_int(b) and isinstance(n.op, ast.BitAnd) and b.value >= 1 and (b.value & (b.value + 1)) == 0:
            return ast.copy_location(ast.BinOp(left=a, op=ast.Mod(), right=ast.Constant(value=b.value + 1)), n)
        if isinstance(n.op, ast.Mult) and isinstance(b, ast.Constant) and not isinstance(a, ast.Constant):
            n.left, n.right = b, a
        return n

    def visit_Compare(self, n):
        self.generic_visit(n)
        if len(n.ops) == 1 and isinstance(n.ops[0], (ast.Eq, ast.NotEq)) and _is_int(n.comparators[0]) \
                and n.comparators[0].value == 0 and isinstance(n.left, ast.BinOp) and isinstance(n.left.op, ast.Sub):
            return ast.copy_location(ast.Compare(left=n.left.left, ops=n.ops, comparators=[n.left.right]), n)
        return n

    def visit_Call(self, n):
        self.generic_visit(n)
        if _is_range(n):
            n.args = [sum_normal(a) if _pure(a) else a for a in n.args]
        return n


def merge_guards(fn):
    """if a: continue / if b: continue  ->  if a or b: continue   (same for break)"""
    for owner, field, L in list(_blocks(fn)):
        out = []
        for st in L:
            if out and isinstance(st, ast.If) and not st.orelse and len(st.body) == 1 \
                    and isinstance(st.body[0], (ast.Continue, ast.Break)):
                p = out[-1]
                if isinstance(p, ast.If) and not p.orelse and len(p.body) == 1 \
                        and type(p.body[0]) is type(st.body[0]) \
                        and not any(isinstance(q, ast.Call) and isinstance(q.func, ast.Name)
                                    and q.func.id.startswith(('DECISION_', 'OPTIONAL_'))
                                    for q in (p.test, st.test)):
                    vals = []
                    for tst in (p.test, st.test):
                        vals += tst.values if isinstance(tst, ast.BoolOp) and isinstance(tst.op, ast.Or) else [tst]
                    p.test = ast.copy_location(ast.BoolOp(op=ast.Or(), values=vals), p.test)
                    continue
            out.append(st)
        L[:] = out
    # a flat `or` of more than the template's operands is compared operand by operand
    return fn


def scopes(fn):
    return [n for n in ast.walk(fn) if isinstance(n, ast.FunctionDef)]


class _All:
    def __contains__(self, x):
        return True


ALL_NAMES = _All()      # temps=ALL_NAMES: no temporary is inlined


def local_names(fn):
    out = set()
    for sc in scopes(fn):
        out |= set(binding_sites(sc))
    return out


def canonical(fn, consts, known_nested, temps=None):
    """temps=None: every safe temporary is inlined; temps=<set of names>: only temporaries whose
    name is NOT in the set (locals the template does not know) are inlined"""
    import copy
    fn = copy.deepcopy(fn)
    local = local_names(fn)
    allow = (lambda t: True) if temps is None else (lambda t: t not in temps)
    for _ in range(5):
        fn = ast.fix_missing_locations(_Arith(consts, local).visit(fn))
        ch = False
        for sc in scopes(fn):
            ch = inline_helpers(sc, known_nested) or ch
        for sc in scopes(fn):
            ch = rewrite_index_loops(sc) or ch
            ast.fix_missing_locations(fn)
        for sc in scopes(fn):
            n = 0
            while inline_temps(sc, allow) and n < 40:
                n += 1
                ch = True
            ast.fix_missing_locations(fn)
        if not ch:
            break
    for sc in scopes(fn):
        merge_guards(sc)
    return ast.fix_missing_locations(fn)


def nested_names(fn):
    return {n.name for n in ast.walk(fn) if isinstance(n, ast.FunctionDef) and n is not fn}


GLOBAL_NAMES = {'np', 'heapq', 'len', 'range', 'min', 'max', 'abs', 'self', 'True', 'False'}


def find_def(tree, name):
    for node in ast.walk(tree):
        if isinstance(node, ast.FunctionDef) and node.name == name:
            return node
    raise TranslateError(f'{name} not found')


HD_KEYS = ['ub_prune', 'ub_push', 'nn_prune', 'nn_short', 'loop_break']
BASELINE_HCFG = {'ub_prune': 'Gt', 'ub_push': 'Lt', 'nn_prune': 'Gt', 'nn_short': 'Le',
                 'loop_break': 'Le'}                           # = hcfg_code of coq/C16/ModelHdCfg.v
LAST_HCFG = [None]      # decision points of the Hausdorff kernel read by the last translate_each

BASELINE_CFG = {'kth_cmp': 'Gt', 'bound_cmp': 'Gt', 'join_or': True, 'skip_empty': True,
                'leaf_cmp': 'Gt', 'leaf_upd': 'PushPop'}     # = cfg_code of coq/C16/Model.v

# what each matched function decides (which correspondence streams must be widened when the
# function cannot be read)
AFFECTS = {
    'build_octree_node': ('knn', 'hd'),
    '_nns_from_nodes_to_nodes': ('knn',),
    'nearest_neighbor_search_from_nodes_to_nodes': ('knn',),
    '_calc_directed_hausdorff_nodes': ('hd',),
    'calculate_hausdorff_distance_nodes': ('hd',),
    '_calculate_euclidean_hop_graph_nodal': ('hop',),
    '_calculate_euclidean_hop_graph_elemental': ('hop',),
}


def match_one(fname, tdef, adef):
    m = Matcher(fname)
    for g in GLOBAL_NAMES:
        m.ren[g] = g
        m.inv[g] = {g}
    m.node(tdef, adef)
    # module-level / free names must not have been renamed
    for t, a in m.ren.items():
        if t != a and (t in GLOBAL_NAMES or a in GLOBAL_NAMES):
            raise TranslateError(f'{fname}: global name {t} renamed to {a}')
    if fname == '_nns_from_nodes_to_nodes':
        d = m.decisions
        need = ['kth_cmp', 'bound_cmp', 'join_or', 'skip_empty', 'leaf_cmp', 'leaf_upd']
        for kx in need:
            if kx not in d:
                raise TranslateError(f'{fname}: decision point {kx} not found')
        return {kx: d[kx] for kx in need}
    if fname == '_calc_directed_hausdorff_nodes':
        d = m.decisions
        for kx in HD_KEYS:
            if kx + '_cmp' not in d:
                raise TranslateError(f'{fname}: decision point {kx} not found')
        return {kx: d[kx + '_cmp'] for kx in HD_KEYS}
    return None


def translate_each(repo):
    """-> (cfg or None, consumed, status) with status[fname] = 'literal' | 'canonical' |
    'unread: <reason>'.  A function is first walked literally against its template; if that
    fails both are put in canonical form and walked again; if that fails too the function is
    *unread* (the caller falls back to the baseline model and a widened correspondence)."""
    path = Path(repo) / 'femio' / 'graph_processor.py'
    src = path.read_text()
    tree = ast.parse(src)
    consts = module_constants(tree)
    consumed, status, cfg = {}, {}, None
    LAST_HCFG[0] = None
    for fname, tsrc in TEMPLATES.items():
        tdef = ast.parse(textwrap.dedent(tsrc)).body[0]
        try:
            adef = find_def(tree, fname)
        except TranslateError as e:
            status[fname] = 'unread: ' + str(e)
            continue
        consumed['femio/graph_processor.py:' + fname + ' (control flow)'] = sha(ast.get_source_segment(src, adef))
        try:
            c = match_one(fname, tdef, adef)
            status[fname] = 'literal'
        except TranslateError as e1:
            known = nested_names(tdef)
            errs = []
            c = None
            # strategy A: inline every safe temporary on both sides; strategy B: keep the
            # template's locals, inline only the locals the template does not know
            for label, tmode, amode in (('A', None, None), ('B', set(local_names(tdef)) | {'__all__'},
                                                            set(local_names(tdef)))):
                try:
                    tt = canonical(tdef, {}, known, temps=None if tmode is None else ALL_NAMES)
                    aa = canonical(adef, consts, known, temps=amode)
                    c = match_one(fname, tt, aa)
                    status[fname] = 'canonical'
                    errs = None
                    break
                except TranslateError as e2:
                    errs.append(f'canonical form {label}: {e2}')
                except (RecursionError, ValueError, TypeError, AttributeError, KeyError, IndexError) as e2:
                    errs.append(f'canonicaliser {label}: {type(e2).__name__}: {e2}')
            if errs is not None:
                status[fname] = f'unread: {e1} / ' + ' / '.join(errs)
                continue
        if fname == '_nns_from_nodes_to_nodes':
            cfg = c
        if fname == '_calc_directed_hausdorff_nodes':
            LAST_HCFG[0] = c
    return cfg, consumed, status


def translate(repo):
    cfg, consumed, status = translate_each(repo)
    bad = {f: s for f, s in status.items() if s.startswith('unread')}
    if bad:
        raise TranslateError('; '.join(f'{f}: {s}' for f, s in bad.items()))
    return cfg, consumed


def emit(cfg):
    b = lambda x: 'true' if x else 'false'  # noqa
    return '\n'.join([
        '(* GENERATED by translate/c16_loops.py from femio/graph_processor.py -- do not edit.',
        '   Decision points of _nns_from_nodes_to_nodes.calc_frm. *)',
        'From FV.C16 Require Import Model.',
        '',
        'Definition gen_cfg : kcfg :=',
        f'  {{| kth_cmp := {cfg["kth_cmp"]}; bound_cmp := {cfg["bound_cmp"]}; join_or := {b(cfg["join_or"])};',
        f'     skip_empty := {b(cfg["skip_empty"])}; leaf_cmp := {cfg["leaf_cmp"]}; leaf_upd := {cfg["leaf_upd"]} |}}.',
        ''])


def emit_hd(h):
    return '\n'.join([
        '(* GENERATED by translate/c16_loops.py from femio/graph_processor.py -- do not edit.',
        '   Decision points of _calc_directed_hausdorff_nodes (calc_frm_node, calc_frm, main loop). *)',
        'From FV.C16 Require Import Model ModelHdCfg.',
        '',
        'Definition gen_hcfg : hcfg :=',
        f'  {{| ub_prune := {h["ub_prune"]}; ub_push := {h["ub_push"]}; nn_prune := {h["nn_prune"]};',
        f'     nn_short := {h["nn_short"]}; loop_break := {h["loop_break"]} |}}.',
        ''])


if __name__ == '__main__':
    import sys
    cfg, consumed, status = translate_each(sys.argv[1] if len(sys.argv) > 1 else '/repo')
    for f, st in status.items():
        print(f'(* {f}: {st} *)')
    print(emit(cfg or BASELINE_CFG))
    print(emit_hd(LAST_HCFG[0] or BASELINE_HCFG))
