"""Fail-closed translator for the control flow of the C16 kernels.

The kernels of femio/graph_processor.py are matched, statement by statement and
expression by expression, against the text the Coq model (coq/C16/Model.v) was
written from (TEMPLATES below).  Local variable names may differ (a consistent
renaming is inferred); everything else must coincide, except at the *decision
points* of the k-nearest search, which are read off the source and emitted as a
configuration record `gen_cfg : kcfg` (coq/C16/gen/KnnCfg.v):

  kth_cmp    the comparison in   `d > -res_q[0][0]`            (prune a popped node)
  bound_cmp  the comparison in   `d > distance_upper_bound`     (prune a popped node)
  join_or    `or` / `and` between the two
  skip_empty presence of         `if idx[to + 1] - idx[to] == 0: continue`
  leaf_cmp   the comparison in   `if d > distance_upper_bound: continue` (leaf point)
  leaf_upd   heapq.heappushpop / heapq.heappush on the result heap

Coq then proves `cfg_ok gen_cfg = true` and the correctness theorem for every
configuration accepted by cfg_ok.  The Hausdorff and hop-graph kernels and the
public wrappers have no decision points: they must match their templates
exactly (up to renaming of locals), which pins the text the hand model mirrors.
Any other difference raises TranslateError (tie broken, never a guess)."""
import ast
import hashlib
import textwrap
from pathlib import Path


class TranslateError(Exception):
    pass


def sha(s):
    return hashlib.sha256(s.encode()).hexdigest()


TEMPLATES = {}

TEMPLATES['_nns_from_nodes_to_nodes'] = '''
def _nns_from_nodes_to_nodes(
    nodes, octree, k, distance_upper_bound=np.inf
):
    points, node_xyzw, node_pt, idx = octree

    def possible_dist_min(node_id, x, y, z):
        pass

    def calc_frm(x, y, z):
        que = [(0.0, 0)]
        res_q = [(-np.inf, -1)] * k

        while que:
            d, node_id = heapq.heappop(que)
            if DECISION_join(DECISION_kth(d > -res_q[0][0]), DECISION_bound(d > distance_upper_bound)):
                continue

            if 8 * node_id + 1 < len(node_xyzw):
                for r in range(8):
                    to = 8 * node_id + r + 1
                    if OPTIONAL_skip_empty(idx[to + 1] - idx[to] == 0):
                        continue
                    d = possible_dist_min(to, x, y, z)
                    heapq.heappush(que, (d, to))
                continue
            for point_id in node_pt[idx[node_id]: idx[node_id + 1], 1]:
                px, py, pz = points[point_id]
                d = ((x - px) ** 2 + (y - py) ** 2 + (z - pz) ** 2) ** .5
                if DECISION_leaf(d > distance_upper_bound):
                    continue
                DECISION_upd(heapq.heappushpop(res_q, (-d, np.int64(point_id))))
        nbd_indices = np.empty(k, np.int32)
        vectors = np.empty((k, 3), np.float64)
        for i in range(k):
            j = heapq.heappop(res_q)[1]
            nbd_indices[i] = j
            if j == -1:
                vectors[i] = (np.inf, np.inf, np.inf)
            else:
                vectors[i][0] = points[j, 0] - x
                vectors[i][1] = points[j, 1] - y
                vectors[i][2] = points[j, 2] - z
        return nbd_indices[::-1], vectors[::-1]

    N = len(nodes)
    nbd_indices = np.empty((N, k), np.int32)
    vectors = np.empty((N, k, 3), np.float64)
    for i in range(N):
        x, y, z = nodes[i]
        nbd_indices[i], vectors[i] = calc_frm(x, y, z)
    dists = np.empty((N, k), np.float64)
    for i in range(N):
        for n in range(k):
            x, y, z = vectors[i, n]
            dists[i, n] = (x * x + y * y + z * z)**.5
    return nbd_indices, vectors, dists
'''

TEMPLATES['_calc_directed_hausdorff_nodes'] = '''
def _calc_directed_hausdorff_nodes(
    octree_A, octree_B
):
    points_A, node_xyzw_A, node_pt_A, idx_A = octree_A
    points_B, node_xyzw_B, node_pt_B, idx_B = octree_B

    def possible_dist_max_node(i, j):
        pass

    def possible_dist_range(node_id, x, y, z):
        pass

    def calc_frm_node(i):
        que = [(0.0, 0)]
        dist = np.inf
        while que:
            d, node_id = heapq.heappop(que)
            if d > dist:
                continue
            if 8 * node_id + 1 < len(node_xyzw_B):
                for r in range(8):
                    to = 8 * node_id + r + 1
                    if idx_B[to + 1] - idx_B[to] == 0:
                        continue
                    d = possible_dist_max_node(i, to)
                    if d < dist:
                        heapq.heappush(que, (d, to))
                continue
            dist = min(dist, possible_dist_max_node(i, node_id))
        return dist

    que = [(0.0, 0)] * 0
    maxsize = len(node_xyzw_A)
    for i in range(maxsize):
        if 8 * i + 1 < maxsize or idx_A[i + 1] == idx_A[i]:
            continue
        que.append((-calc_frm_node(i), i))
    heapq.heapify(que)

    HD = 0.0

    def calc_frm(x, y, z):
        que = [(0.0, 0)]
        dist = np.inf

        while que:
            d, node_id = heapq.heappop(que)
            if d > dist:
                continue

            if 8 * node_id + 1 < len(node_xyzw_B):
                for r in range(8):
                    to = 8 * node_id + r + 1
                    if idx_B[to + 1] - idx_B[to] == 0:
                        continue
                    lo, hi = possible_dist_range(to, x, y, z)
                    if hi <= HD:
                        return 0.0
                    heapq.heappush(que, (lo, to))
                continue
            PID = node_pt_B[idx_B[node_id]: idx_B[node_id + 1], 1]
            for point_id in PID:
                px, py, pz = points_B[point_id]
                d = ((x - px) ** 2 + (y - py) ** 2 + (z - pz) ** 2) ** .5
                dist = min(dist, d)
        return dist

    while que:
        x, i = heapq.heappop(que)
        dist_upper = -x
        if dist_upper <= HD:
            break
        for point_id in node_pt_A[idx_A[i]:idx_A[i + 1], 1]:
            x, y, z = points_A[point_id]
            HD = max(HD, calc_frm(x, y, z))
    return HD
'''

TEMPLATES['calculate_hausdorff_distance_nodes'] = '''
def calculate_hausdorff_distance_nodes(
        self, target_fem_data, directed=False):
    A = self.nodes.data
    B = target_fem_data.nodes.data
    xmin = min(A[:, 0].min(), B[:, 0].min())
    xmax = max(A[:, 0].max(), B[:, 0].max())
    ymin = min(A[:, 1].min(), B[:, 1].min())
    ymax = max(A[:, 1].max(), B[:, 1].max())
    zmin = min(A[:, 2].min(), B[:, 2].min())
    zmax = max(A[:, 2].max(), B[:, 2].max())
    boundingbox = (xmin, xmax, ymin, ymax, zmin, zmax)

    octree_A = self.build_octree_node(A, boundingbox)
    octree_B = self.build_octree_node(B, boundingbox)

    if directed:
        return self._calc_directed_hausdorff_nodes(octree_A, octree_B)
    else:
        HD1 = self._calc_directed_hausdorff_nodes(octree_A, octree_B)
        HD2 = self._calc_directed_hausdorff_nodes(octree_B, octree_A)
        return max(HD1, HD2)
'''

TEMPLATES['nearest_neighbor_search_from_nodes_to_nodes'] = '''
def nearest_neighbor_search_from_nodes_to_nodes(
    self, k, distance_upper_bound=np.inf, target_fem_data=None
):
    if target_fem_data is None:
        target_fem_data = self

    points = target_fem_data.nodes.data
    xmin = points[:, 0].min()
    xmax = points[:, 0].max()
    ymin = points[:, 1].min()
    ymax = points[:, 1].max()
    zmin = points[:, 2].min()
    zmax = points[:, 2].max()
    boundingbox = (xmin, xmax, ymin, ymax, zmin, zmax)
    octree = self.build_octree_node(points, boundingbox)
    nodes = self.nodes.data
    return self._nns_from_nodes_to_nodes(
        nodes, octree, k, distance_upper_bound)
'''

TEMPLATES['_calculate_euclidean_hop_graph_nodal'] = '''
def _calculate_euclidean_hop_graph_nodal(
        indptr_v, indices_v, indptr_e, indices_e, node_pos, max_dist):
    eps = 1e-8
    max_dist += eps
    V = len(indptr_v) - 1
    E = len(indptr_e) - 1
    visited = np.zeros(V + E, np.bool_)
    res = [0] * 0

    for v in range(V):
        x, y, z = node_pos[v]

        def is_nbd(w):
            x1, y1, z1 = node_pos[w]
            dx, dy, dz = x - x1, y - y1, z - z1
            return dx * dx + dy * dy + dz * dz <= max_dist**2

        que = [v]
        visited[v] = 1
        for frm in que:
            if frm < V:
                TO = indices_v[indptr_v[frm]:indptr_v[frm + 1]]
                for to in TO:
                    to += V
                    if visited[to]:
                        continue
                    visited[to] = 1
                    que.append(to)
            else:
                TO = indices_e[indptr_e[frm - V]:indptr_e[frm - V + 1]]
                for to in TO:
                    if visited[to]:
                        continue
                    if not is_nbd(to):
                        continue
                    visited[to] = 1
                    que.append(to)
                    res.append(v)
                    res.append(to)
        for w in que:
            visited[w] = 0
    return res
'''

TEMPLATES['_calculate_euclidean_hop_graph_elemental'] = '''
def _calculate_euclidean_hop_graph_elemental(
        indptr_v, indices_v, indptr_e, indices_e, node_pos, max_dist):
    eps = 1e-8
    max_dist += eps
    V = len(indptr_v) - 1
    E = len(indptr_e) - 1
    visited = np.zeros(V + E, np.bool_)
    res = [0] * 0

    for e in range(E):
        v_ids = indices_e[indptr_e[e]:indptr_e[e + 1]]
        xyz = node_pos[v_ids]

        def is_nbd(v):
            x, y, z = node_pos[v]
            for x1, y1, z1 in xyz:
                dx, dy, dz = x - x1, y - y1, z - z1
                if dx * dx + dy * dy + dz * dz <= max_dist**2:
                    return True
            return False

        que = [V + e]
        visited[V + e] = 1
        for frm in que:
            if frm < V:
                TO = indices_v[indptr_v[frm]:indptr_v[frm + 1]]
                for to in TO:
                    to += V
                    if visited[to]:
                        continue
                    visited[to] = 1
                    que.append(to)
                    res.append(e)
                    res.append(to - V)
            else:
                TO = indices_e[indptr_e[frm - V]:indptr_e[frm - V + 1]]
                for to in TO:
                    if visited[to]:
                        continue
                    if not is_nbd(to):
                        continue
                    visited[to] = 1
                    que.append(to)
        for w in que:
            visited[w] = 0
    return res
'''

TEMPLATES['build_octree_node'] = '''
def build_octree_node(points, boundingbox):
    N = len(points)
    xmin, xmax, ymin, ymax, zmin, zmax = boundingbox
    w0 = max(xmax - xmin, ymax - ymin, zmax - zmin) * 0.51
    x0 = (xmin + xmax) / 2
    y0 = (ymin + ymax) / 2
    z0 = (zmin + zmax) / 2
    if w0 > 0:
        # Snap the grid: the half width becomes a power of two and the
        # centre a multiple of the leaf half width.  Cell centres and
        # bounds are then computed without rounding, so the children of a
        # cell tile it exactly.  Otherwise a point on a cell border can
        # lie in none of the (rounded) child boxes and is lost.
        w0 = 2.0 ** np.ceil(np.log2(w0))
        leaf_w = w0 / 256
        x0 = np.round(x0 / leaf_w) * leaf_w
        y0 = np.round(y0 / leaf_w) * leaf_w
        z0 = np.round(z0 / leaf_w) * leaf_w
    maxsize = 19173961
    node_xyzw = np.empty((maxsize, 4))
    node_xyzw[0] = (x0, y0, z0, w0)
    for v in range(1, maxsize):
        p = (v - 1) >> 3
        r = (v - 1) & 7
        px, py, pz, pw = node_xyzw[p]
        vw = pw / 2
        vx = px - vw if r & 4 else px + vw
        vy = py - vw if r & 2 else py + vw
        vz = pz - vw if r & 1 else pz + vw
        node_xyzw[v] = (vx, vy, vz, vw)

    node_pt, sz = np.empty((9 * N, 2), np.int32), 0

    def add(v, i):
        nonlocal sz
        node_pt[sz], sz = (v, i), sz + 1

    for i in range(N):
        x, y, z = points[i]
        v = 0
        add(v, i)
        for _ in range(8):
            vx, vy, vz, vw = node_xyzw[v]
            assert vx - vw <= x <= vx + vw
            assert vy - vw <= y <= vy + vw
            assert vz - vw <= z <= vz + vw
            for r in range(8):
                c = (v << 3) + r + 1
                cx, cy, cz, cw = node_xyzw[c]
                if not (cx - cw <= x <= cx + cw):
                    continue
                if not (cy - cw <= y <= cy + cw):
                    continue
                if not (cz - cw <= z <= cz + cw):
                    continue
                v = c
                break
            add(v, i)
    ID = np.argsort(node_pt[:, 0])
    node_pt = node_pt[ID]
    idx = np.searchsorted(node_pt[:, 0], np.arange(maxsize + 1))
    return (points, node_xyzw, node_pt, idx)
'''

# nested kernels translated by c16_bounds.py: only their signature is matched here
OPAQUE_NESTED = {'possible_dist_min', 'possible_dist_max_node', 'possible_dist_range'}

CMP_NAMES = {ast.Gt: 'Gt', ast.GtE: 'Ge', ast.Lt: 'Lt', ast.LtE: 'Le', ast.Eq: 'EqC', ast.NotEq: 'NeC'}


def strip_doc(body):
    if body and isinstance(body[0], ast.Expr) and isinstance(body[0].value, ast.Constant) \
            and isinstance(body[0].value.value, str):
        return body[1:]
    return body


class Matcher:
    def __init__(self, fname):
        self.fname = fname
        self.ren = {}       # template local -> actual local
        self.inv = {}
        self.decisions = {}

    def err(self, a, msg):
        raise TranslateError(f'{self.fname}: line {getattr(a, "lineno", "?")}: {msg}')

    def marker(self, t):
        if isinstance(t, ast.Call) and isinstance(t.func, ast.Name) and \
                (t.func.id.startswith('DECISION_') or t.func.id.startswith('OPTIONAL_')):
            return t.func.id
        return None

    def name(self, t, a, node):
        if t in self.ren:
            if self.ren[t] != a:
                self.err(node, f'name {a!r} where {self.ren[t]!r} was expected')
        else:
            if a in self.inv:
                self.err(node, f'name {a!r} is used for two different variables')
            self.ren[t] = a
            self.inv[a] = t

    def stmts(self, ts, as_, ctxnode):
        ts, as_ = strip_doc(list(ts)), strip_doc(list(as_))
        i = j = 0
        while i < len(ts):
            t = ts[i]
            # optional statement: `if OPTIONAL_x(cond): continue`
            if isinstance(t, ast.If) and self.marker(t.test) and self.marker(t.test).startswith('OPTIONAL_'):
                key = self.marker(t.test)[len('OPTIONAL_'):]
                inner = ast.If(test=t.test.args[0], body=t.body, orelse=t.orelse)
                if j < len(as_) and isinstance(as_[j], ast.If):
                    save = (dict(self.ren), dict(self.inv), dict(self.decisions))
                    try:
                        self.node(inner, as_[j])
                        self.decisions[key] = True
                        i += 1
                        j += 1
                        continue
                    except TranslateError:
                        self.ren, self.inv, self.decisions = save
                self.decisions[key] = False
                i += 1
                continue
            if j >= len(as_):
                self.err(ctxnode, 'statement missing: ' + ast.unparse(t)[:60])
            self.node(t, as_[j])
            i += 1
            j += 1
        if j < len(as_):
            self.err(as_[j], 'unexpected statement: ' + ast.unparse(as_[j])[:60])

    def node(self, t, a):
        mk = self.marker(t)
        if mk and mk.startswith('DECISION_'):
            key = mk[len('DECISION_'):]
            inner = t.args[0] if len(t.args) == 1 else None
            if key == 'join':
                if not (isinstance(a, ast.BoolOp) and len(a.values) == 2):
                    self.err(a, 'expected two pruning tests joined by or/and')
                self.decisions['join_or'] = isinstance(a.op, ast.Or)
                self.node(t.args[0], a.values[0])
                self.node(t.args[1], a.values[1])
                return
            if key in ('kth', 'bound', 'leaf'):
                if not (isinstance(a, ast.Compare) and len(a.ops) == 1 and type(a.ops[0]) in CMP_NAMES):
                    self.err(a, 'expected a single comparison')
                self.decisions[key + '_cmp'] = CMP_NAMES[type(a.ops[0])]
                self.node(inner.left, a.left)
                self.node(inner.comparators[0], a.comparators[0])
                return
            if key == 'upd':
                if not (isinstance(a, ast.Call) and isinstance(a.func, ast.Attribute)
                        and a.func.attr in ('heappushpop', 'heappush')):
                    self.err(a, 'expected heapq.heappushpop / heappush on the result heap')
                self.decisions['leaf_upd'] = 'PushPop' if a.func.attr == 'heappushpop' else 'PushOnly'
                self.node(inner.func.value, a.func.value)
                if len(inner.args) != len(a.args) or a.keywords:
                    self.err(a, 'arguments of the heap update')
                for x, y in zip(inner.args, a.args):
                    self.node(x, y)
                return
            self.err(a, 'unknown decision ' + key)
        if type(t) is not type(a):
            self.err(a, f'{type(a).__name__} where {type(t).__name__} was expected: '
                        + ast.unparse(a)[:60] if hasattr(ast, 'unparse') else '')
        if isinstance(t, ast.FunctionDef):
            if t.name != a.name:
                self.err(a, f'function {a.name} where {t.name} was expected')
            ta, aa = t.args, a.args
            if len(ta.args) != len(aa.args) or aa.vararg or aa.kwarg or aa.kwonlyargs \
                    or len(ta.defaults) != len(aa.defaults):
                self.err(a, 'signature differs')
            sub = Matcher(self.fname + '.' + t.name) if False else self
            for x, y in zip(ta.args, aa.args):
                self.name(x.arg, y.arg, a)
            for x, y in zip(ta.defaults, aa.defaults):
                self.node(x, y)
            if t.name in OPAQUE_NESTED:
                return
            self.stmts(t.body, a.body, a)
            return
        if isinstance(t, ast.Name):
            self.name(t.id, a.id, a)
            return
        if isinstance(t, ast.Constant):
            if type(t.value) is not type(a.value) or t.value != a.value:
                self.err(a, f'constant {a.value!r} where {t.value!r} was expected')
            return
        if isinstance(t, ast.Attribute):
            if t.attr != a.attr:
                self.err(a, f'attribute {a.attr} where {t.attr} was expected')
            self.node(t.value, a.value)
            return
        for field in t._fields:
            tv, av = getattr(t, field, None), getattr(a, field, None)
            if field in ('ctx', 'type_comment', 'lineno', 'col_offset', 'kind'):
                continue
            if field in ('body', 'orelse', 'finalbody') and isinstance(tv, list):
                self.stmts(tv, av, a)
                continue
            if isinstance(tv, list):
                if len(tv) != len(av):
                    self.err(a, f'{field}: {len(av)} items where {len(tv)} were expected')
                for x, y in zip(tv, av):
                    if isinstance(x, ast.AST):
                        self.node(x, y)
                    elif x != y:
                        self.err(a, f'{field} differs')
            elif isinstance(tv, ast.AST):
                if not isinstance(av, ast.AST):
                    self.err(a, f'{field} missing')
                self.node(tv, av)
            else:
                if isinstance(tv, type(None)) and av is None:
                    continue
                if tv != av:
                    self.err(a, f'{field}: {av!r} where {tv!r} was expected')


GLOBAL_NAMES = {'np', 'heapq', 'len', 'range', 'min', 'max', 'abs', 'self', 'True', 'False'}


def find_def(tree, name):
    for node in ast.walk(tree):
        if isinstance(node, ast.FunctionDef) and node.name == name:
            return node
    raise TranslateError(f'{name} not found')


def translate(repo):
    path = Path(repo) / 'femio' / 'graph_processor.py'
    src = path.read_text()
    tree = ast.parse(src)
    consumed = {}
    cfg = None
    for fname, tsrc in TEMPLATES.items():
        tdef = ast.parse(textwrap.dedent(tsrc)).body[0]
        adef = find_def(tree, fname)
        consumed['femio/graph_processor.py:' + fname + ' (control flow)'] = sha(ast.get_source_segment(src, adef))
        m = Matcher(fname)
        for g in GLOBAL_NAMES:
            m.ren[g] = g
            m.inv[g] = g
        m.node(tdef, adef)
        # module-level / free names must not have been renamed
        for t, a in m.ren.items():
            if t != a and (t in GLOBAL_NAMES or a in GLOBAL_NAMES):
                raise TranslateError(f'{fname}: global name {t} renamed to {a}')
        if fname == '_nns_from_nodes_to_nodes':
            d = m.decisions
            need = ['kth_cmp', 'bound_cmp', 'join_or', 'skip_empty', 'leaf_cmp', 'leaf_upd']
            for kx in need:
                if kx not in d:
                    raise TranslateError(f'{fname}: decision point {kx} not found')
            cfg = {kx: d[kx] for kx in need}
    return cfg, consumed


def emit(cfg):
    b = lambda x: 'true' if x else 'false'  # noqa
    return '\n'.join([
        '(* GENERATED by translate/c16_loops.py from femio/graph_processor.py -- do not edit.',
        '   Decision points of _nns_from_nodes_to_nodes.calc_frm. *)',
        'From FV.C16 Require Import Model.',
        '',
        'Definition gen_cfg : kcfg :=',
        f'  {{| kth_cmp := {cfg["kth_cmp"]}; bound_cmp := {cfg["bound_cmp"]}; join_or := {b(cfg["join_or"])};',
        f'     skip_empty := {b(cfg["skip_empty"])}; leaf_cmp := {cfg["leaf_cmp"]}; leaf_upd := {cfg["leaf_upd"]} |}}.',
        ''])


if __name__ == '__main__':
    import sys
    cfg, consumed = translate(sys.argv[1] if len(sys.argv) > 1 else '/repo')
    print(emit(cfg))
