"""C14 — translator (tie T) for SignalProcessorMixin.convert_elemental2nodal.

The method is EXECUTED SYMBOLICALLY (python `ast`, no import of femio) once per
configuration
    mode      in {every string literal the code compares a value with} + {some other string}
    weight    in {False, None, an array}
    incidence in {None, a matrix}
with `elemental_data`, `order1_only`, `raise_negative_volume` symbolic.  Private
helpers of the class are inlined (positional / keyword / default binding),
early returns, guard clauses, re-assigned parameters, renamed locals and
`elif` chains are all just execution.  What a configuration returns is a term
over the sparse-matrix operations the code performs; it is printed as a term
of the language of coq/C14/Prog.v.  The result is a table
    mode -> weight kind -> incidence given -> (guards, PDot <matrix expr> | PRaise <exc>)
written to coq/C14/gen/E2NProg.v; Props.v proves it equal to the reference
table, whose interpretation is proved equal to the model.

Fail-closed: anything outside the small executable subset raises
Untranslatable (the harness then falls back to the committed baseline table
and a widened correspondence; it never reports that by itself)."""
import ast
import hashlib
from pathlib import Path

CLASS = 'SignalProcessorMixin'
METHOD = 'convert_elemental2nodal'
REL = 'femio/signal_processor.py'
MAX_DEPTH = 4


class Untranslatable(Exception):
    pass


class Other:
    """a mode string different from every literal in the code"""
    def __repr__(self):
        return '<other mode>'


OTHER = Other()
ARR = ('arr', 'weight')
DATA = ('arr', 'elemental_data')
INCARG = ('incarg',)
SELF = ('self',)


class Raised(Exception):
    def __init__(self, name):
        self.name = name


class Returned(Exception):
    def __init__(self, value):
        self.value = value


def is_const(v):
    return v is None or isinstance(v, (bool, int, float, str, Other)) or \
        (isinstance(v, tuple) and v and v[0] == 'tuple')


def kind(v):
    """shape kind of a symbolic value: M (n_node, n_elem) | row (1, n_elem) |
    col (n_node, 1) | ecol (n_elem, 1) / (n_elem,) | None"""
    if not isinstance(v, tuple) or not v:
        return None
    h = v[0]
    if h in ('incarg', 'inc_calc', 'mul'):
        return 'M'
    if h == 'arr' and v[1] == 'weight':
        return 'ecol'
    if h == 'metrics':
        return 'ecol'
    if h == 'colsums':
        return 'row'
    if h == 'rowsums':
        return 'col'
    if h == 'recip':
        return kind(v[1])
    if h == 'T':
        return {'ecol': 'row', 'row': 'ecol', 'col': 'rowN'}.get(kind(v[1]))
    return None


class Machine:
    def __init__(self, methods, src):
        self.methods = methods
        self.src = src
        self.guards = []
        self.used = set()
        self.cmp_literals = set()

    # ------------------------------------------------------------ calls
    def bind(self, fn, args, kwargs, skip_self=True):
        a = fn.args
        if a.vararg or a.kwarg or a.posonlyargs:
            raise Untranslatable(f'{fn.name}: *args / **kwargs / positional-only parameters')
        names = [x.arg for x in a.args]
        if skip_self:
            if not names or names[0] != 'self':
                raise Untranslatable(f'{fn.name}: not a plain method')
            names = names[1:]
        env = {'self': SELF}
        if len(args) > len(names):
            raise Untranslatable(f'{fn.name}: too many positional arguments')
        for n, v in zip(names, args):
            env[n] = v
        kwnames = [x.arg for x in a.kwonlyargs]
        for k, v in kwargs.items():
            if k in env or k not in names + kwnames:
                raise Untranslatable(f'{fn.name}: bad keyword {k}')
            env[k] = v
        defaults = dict(zip(names[len(names) - len(a.defaults):], a.defaults))
        defaults.update({k.arg: d for k, d in zip(a.kwonlyargs, a.kw_defaults) if d is not None})
        for n in names + kwnames:
            if n not in env:
                if n not in defaults:
                    raise Untranslatable(f'{fn.name}: missing argument {n}')
                env[n] = self.eval(defaults[n], {})
        return env

    def call_method(self, name, args, kwargs, depth):
        if depth > MAX_DEPTH:
            raise Untranslatable('helper nesting too deep')
        fn = self.methods[name]
        self.used.add(name)
        env = self.bind(fn, args, kwargs)
        try:
            self.exec_block(fn.body, env, depth + 1)
        except Returned as r:
            return r.value
        return None

    # ------------------------------------------------------ expressions
    def eval(self, e, env, depth=0):
        if isinstance(e, ast.Constant):
            if e.value is None or isinstance(e.value, (bool, int, float, str)):
                return e.value
            raise Untranslatable('constant ' + repr(e.value))
        if isinstance(e, ast.Name):
            if e.id in env:
                return env[e.id]
            raise Untranslatable('unbound name ' + e.id)
        if isinstance(e, (ast.Tuple, ast.List, ast.Set)):
            return ('tuple',) + tuple(self.eval(x, env, depth) for x in e.elts)
        if isinstance(e, ast.JoinedStr):
            return ('message',)
        if isinstance(e, ast.Attribute):
            src = ast.unparse(e)
            if src == 'self.elements.ids':
                return ('elem_ids',)
            if src == 'self.elements':
                return ('elements',)
            v = self.eval(e.value, env, depth)
            if e.attr == 'T':
                return self.transpose(v)
            raise Untranslatable('attribute ' + src)
        if isinstance(e, ast.UnaryOp) and isinstance(e.op, ast.Not):
            return not self.truth(self.eval(e.operand, env, depth))
        if isinstance(e, ast.BoolOp):
            vals = e.values
            if isinstance(e.op, ast.And):
                r = True
                for x in vals:
                    r = self.eval(x, env, depth)
                    if not self.truth(r):
                        return r
                return r
            r = False
            for x in vals:
                r = self.eval(x, env, depth)
                if self.truth(r):
                    return r
            return r
        if isinstance(e, ast.IfExp):
            return self.eval(e.body if self.truth(self.eval(e.test, env, depth)) else e.orelse,
                             env, depth)
        if isinstance(e, ast.Compare):
            return self.compare(e, env, depth)
        if isinstance(e, ast.BinOp):
            l, r = self.eval(e.left, env, depth), self.eval(e.right, env, depth)
            if isinstance(e.op, ast.Div) and l in (1, 1.0) and not isinstance(l, bool) \
                    and kind(r) in ('row', 'col'):
                return ('recip', r)
            if isinstance(e.op, ast.Pow) and r in (-1, -1.0) and kind(l) in ('row', 'col'):
                return ('recip', l)
            raise Untranslatable('arithmetic ' + ast.unparse(e))
        if isinstance(e, ast.Call):
            return self.call(e, env, depth)
        raise Untranslatable('expression ' + ast.unparse(e))

    def transpose(self, v):
        if kind(v) == 'ecol':
            return ('T', v)
        if isinstance(v, tuple) and v[0] == 'T':
            return v[1]
        raise Untranslatable('transpose of ' + repr(v))

    def truth(self, v):
        if v is None or isinstance(v, (bool, int, float, str)):
            return bool(v)
        if isinstance(v, Other):
            return True
        if isinstance(v, tuple) and v and v[0] == 'tuple':
            return len(v) > 1
        raise Undecided(v)

    def compare(self, e, env, depth):
        if len(e.ops) != 1:
            raise Untranslatable('chained comparison')
        op = e.ops[0]
        l = self.eval(e.left, env, depth)
        r = self.eval(e.comparators[0], env, depth)
        for x in (l, r):
            if isinstance(x, str):
                self.cmp_literals.add(x)
            if isinstance(x, tuple) and x and x[0] == 'tuple':
                self.cmp_literals.update(y for y in x[1:] if isinstance(y, str))
        if isinstance(op, (ast.Is, ast.IsNot)):
            # identity with None / True / False is decided for every value we carry
            if not any(x is None or isinstance(x, bool) for x in (l, r)):
                raise Untranslatable('identity test ' + ast.unparse(e))
            same = (l is r) if (l is None or isinstance(l, bool)) and \
                (r is None or isinstance(r, bool)) else False
            return same if isinstance(op, ast.Is) else not same
        if isinstance(op, (ast.Eq, ast.NotEq)):
            if isinstance(l, tuple) and l[0] == 'len' and isinstance(r, tuple) and r[0] == 'len':
                raise Undecided(('ne' if isinstance(op, ast.NotEq) else 'eq', l, r))
            if not (is_const(l) and is_const(r)):
                raise Untranslatable('comparison of a symbolic value: ' + ast.unparse(e))
            eq = (l is r) if (isinstance(l, Other) or isinstance(r, Other)) else (l == r)
            return eq if isinstance(op, ast.Eq) else not eq
        if isinstance(op, (ast.In, ast.NotIn)):
            if not (isinstance(r, tuple) and r and r[0] == 'tuple' and is_const(l)):
                raise Untranslatable('membership test ' + ast.unparse(e))
            if isinstance(l, Other):
                inside = False
            else:
                inside = any((not isinstance(y, Other)) and type(y) is type(l) and y == l
                             for y in r[1:])
            return inside if isinstance(op, ast.In) else not inside
        raise Untranslatable('comparison ' + ast.unparse(e))

    def barg(self, v, param):
        if v == ('bparam', param):
            return ('BParam',)
        if isinstance(v, bool):
            return ('BConst', v)
        raise Untranslatable(f'flag argument {v!r} (expected the parameter {param} or a bool)')

    def call(self, e, env, depth):
        if any(isinstance(a, ast.Starred) for a in e.args) or any(k.arg is None for k in e.keywords):
            raise Untranslatable('star arguments')
        f = e.func
        args = [self.eval(a, env, depth) for a in e.args]
        kwargs = {k.arg: self.eval(k.value, env, depth) for k in e.keywords}
        if isinstance(f, ast.Name):
            if f.id == 'len' and len(args) == 1 and not kwargs:
                return ('len', args[0])
            if f.id in ('ValueError', 'NotImplementedError', 'TypeError', 'KeyError',
                        'RuntimeError', 'Exception'):
                return ('exc', f.id)
            raise Untranslatable('call of ' + f.id)
        if not isinstance(f, ast.Attribute):
            raise Untranslatable('call ' + ast.unparse(e))
        if isinstance(f.value, ast.Name) and f.value.id == 'self' and env.get('self') == SELF:
            name = f.attr
            if name == 'calculate_incidence_matrix':
                if args or set(kwargs) != {'order1_only'}:
                    if len(args) == 1 and not kwargs:
                        return ('inc_calc', self.barg(args[0], 'order1_only'))
                    raise Untranslatable('calculate_incidence_matrix called with ' + ast.unparse(e))
                return ('inc_calc', self.barg(kwargs['order1_only'], 'order1_only'))
            if name == 'calculate_element_metrics':
                if args or set(kwargs) != {'raise_negative_metric'}:
                    raise Untranslatable('calculate_element_metrics called with ' + ast.unparse(e))
                return ('metrics', self.barg(kwargs['raise_negative_metric'], 'raise_negative_volume'))
            if name in self.methods:
                return self.call_method(name, args, kwargs, depth)
            raise Untranslatable('method self.' + name)
        if ast.unparse(f) in ('np.reciprocal', 'numpy.reciprocal') and len(args) == 1 and not kwargs \
                and kind(args[0]) in ('row', 'col'):
            return ('recip', args[0])
        obj = self.eval(f.value, env, depth)
        if f.attr == 'multiply' and len(args) == 1 and not kwargs and kind(obj) == 'M':
            k = kind(args[0])
            if k in ('row', 'col'):
                return ('mul', obj, args[0])
            raise Untranslatable(f'multiply of the matrix with a {k} operand: ' + ast.unparse(e))
        if f.attr == 'sum' and kind(obj) == 'M':
            ax = kwargs.get('axis', args[0] if args else None)
            if len(args) + len(kwargs) != 1 or ax not in (0, 1) or isinstance(ax, bool):
                raise Untranslatable('sum ' + ast.unparse(e))
            return ('colsums', obj) if ax == 0 else ('rowsums', obj)
        if f.attr == 'dot' and len(args) == 1 and not kwargs and kind(obj) == 'M':
            return ('dot', obj, args[0])
        if f.attr == 'transpose' and not args and not kwargs:
            return self.transpose(obj)
        raise Untranslatable('call ' + ast.unparse(e))

    # ------------------------------------------------------- statements
    def exec_block(self, body, env, depth):
        for st in body:
            self.exec(st, env, depth)

    def exec(self, st, env, depth):
        if isinstance(st, ast.Expr):
            if isinstance(st.value, ast.Constant):
                return
            raise Untranslatable('expression statement ' + ast.unparse(st))
        if isinstance(st, ast.Pass):
            return
        if isinstance(st, ast.Assign):
            if len(st.targets) != 1 or not isinstance(st.targets[0], ast.Name):
                raise Untranslatable('assignment ' + ast.unparse(st))
            env[st.targets[0].id] = self.eval(st.value, env, depth)
            return
        if isinstance(st, ast.AnnAssign) and isinstance(st.target, ast.Name) and st.value is not None:
            env[st.target.id] = self.eval(st.value, env, depth)
            return
        if isinstance(st, ast.Return):
            raise Returned(None if st.value is None else self.eval(st.value, env, depth))
        if isinstance(st, ast.Raise):
            if st.exc is None:
                raise Untranslatable('bare raise')
            v = self.eval(st.exc, env, depth) if isinstance(st.exc, ast.Call) else None
            if isinstance(st.exc, ast.Name):
                v = ('exc', st.exc.id)
            if not (isinstance(v, tuple) and v[0] == 'exc'):
                raise Untranslatable('raise ' + ast.unparse(st))
            raise Raised(v[1])
        if isinstance(st, ast.If):
            try:
                t = self.truth(self.eval(st.test, env, depth))
            except Undecided as u:
                # a test on the INPUT: only a guard clause `if <len mismatch>: raise X`
                g = self.guard_of(u.value)
                if g is None or st.orelse or len(st.body) != 1 or not isinstance(st.body[0], ast.Raise):
                    raise Untranslatable('data-dependent branch ' + ast.unparse(st.test))
                try:
                    self.exec(st.body[0], env, depth)
                except Raised as r:
                    self.guards.append((g, r.name))
                return
            self.exec_block(st.body if t else st.orelse, env, depth)
            return
        raise Untranslatable('statement ' + type(st).__name__)

    @staticmethod
    def guard_of(v):
        if isinstance(v, tuple) and len(v) == 3 and v[0] == 'ne':
            sides = {v[1], v[2]}
            if sides == {('len', DATA), ('len', ('elem_ids',))} or \
                    sides == {('len', DATA), ('len', ('elements',))}:
                return 'GLenElems'
        return None


class Undecided(Untranslatable):
    def __init__(self, value):
        self.value = value


# ---------------------------------------------------------------- printing
def barg_coq(b):
    return 'BParam' if b == ('BParam',) else '(BConst %s)' % ('true' if b[1] else 'false')


def m_coq(t):
    if t == INCARG:
        return 'MIncArg'
    if t[0] == 'inc_calc':
        return f'(MIncCalc {barg_coq(t[1])})'
    if t[0] == 'mul':
        k = kind(t[2])
        if k == 'row':
            return f'(MScaleCols {m_coq(t[1])} {r_coq(t[2])})'
        if k == 'col':
            return f'(MScaleRows {m_coq(t[1])} {c_coq(t[2])})'
    raise Untranslatable('matrix term ' + repr(t))


def r_coq(t):
    if t == ('T', ARR):
        return 'RWeightT'
    if t[0] == 'T' and t[1][0] == 'metrics':
        return f'(RMetricsT {barg_coq(t[1][1])})'
    if t[0] == 'recip' and t[1][0] == 'colsums':
        return f'(RRecipColSums {m_coq(t[1][1])})'
    raise Untranslatable('row-vector term ' + repr(t))


def c_coq(t):
    if t[0] == 'recip' and t[1][0] == 'rowsums':
        return f'(CRecipRowSums {m_coq(t[1][1])})'
    raise Untranslatable('column-vector term ' + repr(t))


def branch_coq(guards, res):
    gs = '; '.join(f'{g} "{exc}"' for g, exc in guards)
    return f'mkbranch [{gs}] ({res})'


WK = [('KFalse', False), ('KNone', None), ('KArr', ARR)]
GIVEN = [('false', None), ('true', INCARG)]


def find_class(tree):
    for n in tree.body:
        if isinstance(n, ast.ClassDef) and n.name == CLASS:
            return n
    raise Untranslatable(f'class {CLASS} not found')


def run_config(methods, src, mode, weight, incidence):
    mc = Machine(methods, src)
    fn = methods[METHOD]
    names = [a.arg for a in fn.args.args] + [a.arg for a in fn.args.kwonlyargs]
    need = {'self', 'elemental_data', 'mode', 'order1_only', 'raise_negative_volume', 'weight',
            'incidence'}
    if set(names) != need:
        raise Untranslatable(f'{METHOD}: parameters {names}')
    env = {'self': SELF, 'elemental_data': DATA, 'mode': mode,
           'order1_only': ('bparam', 'order1_only'),
           'raise_negative_volume': ('bparam', 'raise_negative_volume'),
           'weight': weight, 'incidence': incidence}
    mc.used.add(METHOD)
    try:
        mc.exec_block(fn.body, env, 0)
        raise Untranslatable('falls off the end without a return')
    except Returned as r:
        v = r.value
        if not (isinstance(v, tuple) and v[0] == 'dot' and v[2] == DATA):
            raise Untranslatable('returns ' + repr(v))
        res = f'PDot {m_coq(v[1])}'
        guards = mc.guards
    except Raised as r:
        res = f'PRaise "{r.name}"'
        # a configuration that raises whatever the data: guards raising the same
        # exception add nothing
        guards = [] if all(exc == r.name for _, exc in mc.guards) else mc.guards
    return (tuple(guards), res), mc


def defaults_of(fn):
    mc = Machine({}, '')
    a = fn.args
    names = [x.arg for x in a.args]
    d = dict(zip(names[len(names) - len(a.defaults):], a.defaults))
    d.update({k.arg: v for k, v in zip(a.kwonlyargs, a.kw_defaults) if v is not None})
    val = {k: mc.eval(v, {}) for k, v in d.items()}
    for k in ('mode', 'order1_only', 'raise_negative_volume', 'weight', 'incidence'):
        if k not in val:
            raise Untranslatable(f'parameter {k} has no default')
    if not isinstance(val['mode'], str) or not isinstance(val['order1_only'], bool) or \
            not isinstance(val['raise_negative_volume'], bool):
        raise Untranslatable('defaults ' + repr(val))
    if val['weight'] is None:
        wk = 'KNone'
    elif val['weight'] is False:
        wk = 'KFalse'
    else:
        raise Untranslatable('default weight ' + repr(val['weight']))
    if val['incidence'] is not None:
        raise Untranslatable('default incidence ' + repr(val['incidence']))
    b = lambda x: 'true' if x else 'false'  # noqa
    return (f'mkdefaults "{val["mode"]}" {b(val["order1_only"])} '
            f'{b(val["raise_negative_volume"])} {wk} false'), val


def translate(repo):
    """-> (coq text, info) ; raises Untranslatable"""
    path = Path(repo) / REL
    try:
        src = path.read_text()
        tree = ast.parse(src)
    except (OSError, SyntaxError) as e:
        raise Untranslatable(f'cannot parse {REL}: {e}')
    cls = find_class(tree)
    methods = {n.name: n for n in cls.body if isinstance(n, ast.FunctionDef)}
    if METHOD not in methods:
        raise Untranslatable(METHOD + ' not found')
    for n in methods.values():
        if n.decorator_list and n.name == METHOD:
            raise Untranslatable(METHOD + ' is decorated')
    # 1. the literals some value is compared with (found by running with an unknown mode first
    #    and then with every literal found, until no new one shows up)
    literals, todo, used = set(), [OTHER], set()
    table = {}
    while todo:
        mode = todo.pop()
        for wk, wv in WK:
            for gk, gv in GIVEN:
                out, mc = run_config(methods, src, mode, wv, gv)
                table[(mode, wk, gk)] = out
                used |= mc.used
                for s in sorted(mc.cmp_literals):
                    if s not in literals:
                        literals.add(s)
                        todo.append(s)
    # literals that change nothing are dropped
    relevant = sorted(s for s in literals
                      if any(table[(s, wk, gk)] != table[(OTHER, wk, gk)]
                             for wk, _ in WK for gk, _ in GIVEN))
    for s in relevant:
        if '"' in s or '\\' in s or any(ord(ch) > 126 or ord(ch) < 32 for ch in s):
            raise Untranslatable('mode literal ' + repr(s))
    dflt, dval = defaults_of(methods[METHOD])

    def block(mode, ind):
        rows = [f'{ind}| {wk}, {gk} => {branch_coq(*table[(mode, wk, gk)])}'
                for wk, _ in WK for gk, _ in GIVEN]
        return f'{ind}match wk, given with\n' + '\n'.join(rows) + f'\n{ind}end'
    body = ''
    for s in relevant:
        body += f'  if String.eqb mode "{s}" then\n{block(s, "    ")}\n  else\n'
    body += block(OTHER, '    ')
    regions = {name: ast.get_source_segment(src, methods[name]) for name in sorted(used)}
    sha = hashlib.sha256('\n'.join(regions[k] for k in sorted(regions)).encode()).hexdigest()
    text = (f'(* GENERATED by translate/c14_e2n.py from {REL}\n'
            f'   ({CLASS}.{METHOD}; methods read: {", ".join(sorted(used))}).\n'
            f'   Do not edit: rewritten on every run. *)\n'
            'From Coq Require Import String List Bool.\nImport ListNotations.\n'
            'From FV.C14 Require Import Prog.\nOpen Scope string_scope.\n\n'
            f'Definition e2n_mode_literals : list string := '
            f'[{"; ".join(chr(34) + s + chr(34) for s in relevant)}].\n\n'
            'Definition e2n_prog : program := fun mode wk given =>\n' + body + '.\n\n'
            f'Definition e2n_defaults : defaults := {dflt}.\n')
    info = {'sha': sha, 'methods': sorted(used), 'mode_literals': relevant,
            'defaults': {k: (None if v is None else v) for k, v in dval.items()},
            'table': {f'{m!r}/{wk}/{gk}': [list(map(list, g)), r]
                      for (m, wk, gk), (g, r) in table.items()}}
    return text, info


if __name__ == '__main__':
    import sys
    t, i = translate(sys.argv[1] if len(sys.argv) > 1 else '/repo')
    print(t)
    print(i['methods'], i['mode_literals'], i['defaults'])
