#!/bin/bash
# ./seed4_import.sh Cxx — import all round-4 seeds of a property from /tmp/seed4/wt_Cxx/seeded (slugs prefixed r4-)
cd "$(dirname "$0")"
P="$1"
for s in /tmp/seed4/wt_$P/seeded/*/; do
  [ -f "$s/patch.diff" ] || continue
  SLUG_PREFIX=r4- ./seed_import.sh "$P" "$s"
done 2>&1 | grep -E "^C[0-9]+ |PATCH"
