#!/usr/bin/env python3
"""table of seeded defects and whether the registered check detects them"""
import json, glob, os
rows = []
for f in sorted(glob.glob('/verif/seeded/*/*/meta.json')):
    m = json.load(open(f))
    c = m.get('confirmed', {}); k = m.get('check', {})
    ok = c.get('demo_exit_clean_tree') == 0 and c.get('demo_exit_patched_tree') not in (0, None) \
        and 'missing []' in str(c.get('full_suite_on_patched_tree', ''))
    rows.append((m['property'], m['slug'], 'yes' if ok else 'NO', 'DETECTED' if k.get('detected') else 'missed',
                 (k.get('output') or [''])[0][:70]))
print('| property | seeded change | confirmed | check | first line |\n|---|---|---|---|---|')
for r in rows:
    print('| ' + ' | '.join(r) + ' |')
