#!/usr/bin/env python3
"""table of seeded defects and whether the registered check detects them"""
import json, glob, os
rows = []
for f in sorted(glob.glob('/verif/seeded/*/*/meta.json')):
    m = json.load(open(f))
    c = m.get('confirmed', {}); k = m.get('check', {})
    ok = c.get('demo_exit_clean_tree') == 0 and c.get('demo_exit_patched_tree') not in (0, None) \
        and 'missing []' in str(c.get('full_suite_on_patched_tree', ''))
    r = m.get('recheck')
    if k.get('detected'):
        verdict = 'DETECTED'
    elif r and r.get('detected'):
        verdict = 'detected-after'
    else:
        verdict = 'missed'
    outl = [l for l in ((r or k).get('output') or k.get('output') or ['']) if l.startswith('VIOLATION')] or ['']
    rows.append((m['property'], m['slug'], 'yes' if ok else 'NO', verdict, outl[0][:90]))
print('| property | seeded change | confirmed | check | first line |\n|---|---|---|---|---|')
for r in rows:
    print('| ' + ' | '.join(r) + ' |')
